//! shared decoder drivers
