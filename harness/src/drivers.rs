//! Shared decoder drivers: each decodes one frame through a different public entry point with a
//! fixed, simple schedule (schedule variation is C06's business) and reports everything observable.

use ruzstd::decoding::{BlockDecodingStrategy, Dictionary, FrameDecoder, StreamingDecoder};
use std::io::Read;

#[derive(Clone, Debug, Default, PartialEq)]
pub struct Outcome {
    pub bytes: Vec<u8>,
    pub consumed: u64,
    pub calc_checksum: Option<u32>,
    pub data_checksum: Option<u32>,
    pub content_size: u64,
    pub blocks: usize,
    pub finished: bool,
}

pub const DRIVER_NAMES: [&str; 4] = ["streaming", "decode_blocks_all", "decode_all", "decode_from_to"];

pub fn snapshot(dec: &FrameDecoder, bytes: Vec<u8>) -> Outcome {
    Outcome {
        bytes,
        consumed: dec.bytes_read_from_source(),
        calc_checksum: dec.get_calculated_checksum(),
        data_checksum: dec.get_checksum_from_data(),
        content_size: dec.content_size(),
        blocks: dec.blocks_decoded(),
        finished: dec.is_finished(),
    }
}

pub fn new_decoder(dicts: &[&[u8]], max_window: Option<u64>) -> Result<FrameDecoder, String> {
    let mut dec = FrameDecoder::new();
    if let Some(w) = max_window {
        dec.set_max_window_size(w);
    }
    for d in dicts {
        let dict = Dictionary::decode_dict(d).map_err(|e| format!("dictionary rejected: {e}"))?;
        dec.add_dict(dict).map_err(|e| format!("add_dict: {e}"))?;
    }
    Ok(dec)
}

/// Counting reader: how many bytes were pulled from the source.
pub struct CountingReader<'a> {
    pub data: &'a [u8],
    pub pos: usize,
    /// max bytes per read call (0 = unlimited)
    pub chunk: usize,
}

impl Read for CountingReader<'_> {
    fn read(&mut self, buf: &mut [u8]) -> std::io::Result<usize> {
        let mut n = buf.len().min(self.data.len() - self.pos);
        if self.chunk > 0 {
            n = n.min(self.chunk);
        }
        buf[..n].copy_from_slice(&self.data[self.pos..self.pos + n]);
        self.pos += n;
        Ok(n)
    }
}

pub fn run_driver(
    which: usize,
    frame: &[u8],
    dicts: &[&[u8]],
    max_window: Option<u64>,
    expected_len: usize,
    out_cap: usize,
) -> Result<Outcome, String> {
    match which {
        0 => {
            let dec = new_decoder(dicts, max_window)?;
            let mut src = CountingReader {
                data: frame,
                pos: 0,
                chunk: 0,
            };
            let mut sd = StreamingDecoder::new_with_decoder(&mut src, dec).map_err(|e| format!("init: {e}"))?;
            let mut out = Vec::with_capacity(expected_len.min(out_cap));
            let mut buf = vec![0u8; 4099];
            loop {
                let n = sd.read(&mut buf).map_err(|e| format!("read: {e}"))?;
                if n == 0 {
                    break;
                }
                out.extend_from_slice(&buf[..n]);
                if out.len() > out_cap {
                    return Err("output cap exceeded".into());
                }
            }
            let dec = sd.into_frame_decoder();
            Ok(snapshot(&dec, out))
        }
        1 => {
            let mut dec = new_decoder(dicts, max_window)?;
            let mut src = CountingReader {
                data: frame,
                pos: 0,
                chunk: 0,
            };
            dec.reset(&mut src).map_err(|e| format!("init: {e}"))?;
            dec.decode_blocks(&mut src, BlockDecodingStrategy::All)
                .map_err(|e| format!("decode_blocks: {e}"))?;
            let out = dec.collect().unwrap_or_default();
            let mut o = snapshot(&dec, out);
            if src.pos as u64 != o.consumed {
                o.consumed = u64::MAX; // reader position disagrees with the decoder's own count
            }
            Ok(o)
        }
        2 => {
            let mut dec = new_decoder(dicts, max_window)?;
            let mut out = vec![0u8; expected_len];
            let n = dec.decode_all(frame, &mut out).map_err(|e| format!("decode_all: {e}"))?;
            out.truncate(n);
            Ok(snapshot(&dec, out))
        }
        _ => {
            let mut dec = new_decoder(dicts, max_window)?;
            let mut out = vec![];
            let mut buf = vec![0u8; 65536];
            let mut pos = 0usize;
            let mut idle = 0;
            loop {
                let (r, w) = dec
                    .decode_from_to(&frame[pos..], &mut buf)
                    .map_err(|e| format!("decode_from_to: {e}"))?;
                if r > frame.len() - pos {
                    return Err(format!("decode_from_to consumed {r} of {} offered bytes", frame.len() - pos));
                }
                pos += r;
                out.extend_from_slice(&buf[..w]);
                if out.len() > out_cap {
                    return Err("output cap exceeded".into());
                }
                if dec.is_finished() && dec.can_collect() == 0 {
                    break;
                }
                if r == 0 && w == 0 {
                    idle += 1;
                    if idle > 2 {
                        return Err("decode_from_to makes no progress on a complete frame".into());
                    }
                }
            }
            let mut o = snapshot(&dec, out);
            if pos as u64 != o.consumed {
                o.consumed = u64::MAX;
            }
            Ok(o)
        }
    }
}
