//! vcheck: property-based / fuzz checks for the 20 listed properties of KillingSpark/zstd-rs.
//! usage: vcheck <CNN> [--tier quick|thorough] [--replay FILE]

#![allow(dead_code, clippy::all)]
use vcheck::{alloc, debug, engine, props};

#[global_allocator]
static GLOBAL: alloc::VAlloc = alloc::VAlloc;

use engine::{Engine, Tier};

fn main() {
    let args: Vec<String> = std::env::args().collect();
    if args.len() < 2 {
        eprintln!("usage: vcheck <CNN> [--tier quick|thorough] [--replay FILE]");
        std::process::exit(2);
    }
    let id = args[1].clone();
    if id == "DEBUG" {
        if args.get(2).map(|s| s == "c16").unwrap_or(false) {
            debug::replay_c16(&args[3]);
            return;
        }
        debug::run(args.get(2).map(|s| s.as_str()).unwrap_or(""));
        return;
    }
    let mut tier = match std::env::var("VERIF_TIER").as_deref() {
        Ok("thorough") => Tier::Thorough,
        _ => Tier::Quick,
    };
    let mut replay: Option<String> = None;
    let mut i = 2;
    while i < args.len() {
        match args[i].as_str() {
            "--tier" => {
                i += 1;
                tier = if args.get(i).map(|s| s == "thorough").unwrap_or(false) {
                    Tier::Thorough
                } else {
                    Tier::Quick
                };
            }
            "--replay" => {
                i += 1;
                replay = args.get(i).cloned();
            }
            other => {
                eprintln!("unknown argument {other}");
                std::process::exit(2);
            }
        }
        i += 1;
    }
    let seed: u64 = std::env::var("VERIF_SEED")
        .ok()
        .and_then(|s| s.trim().parse::<i128>().ok())
        .map(|v| v as u64)
        .unwrap_or(0x5EED);
    engine::install_panic_hook();
    let eng = Engine::new(&id, tier, seed);

    if let Some(path) = replay {
        let Some((prop, stage, case)) = engine::load_replay(std::path::Path::new(&path)) else {
            println!("INCONCLUSIVE cannot read replay file {path}");
            std::process::exit(2);
        };
        if prop != id {
            println!("INCONCLUSIVE replay file is for property {prop}, not {id}");
            std::process::exit(2);
        }
        match replay_guarded(&id, &eng, &stage, &case, std::path::Path::new(&path)) {
            Ok(()) => {
                println!("replay passed: property={id} stage={stage}");
                std::process::exit(0);
            }
            Err(f) if f.kind == "machinery" => {
                println!("INCONCLUSIVE {}", f.msg);
                std::process::exit(2);
            }
            Err(f) => {
                println!("VIOLATION property={id} replay={path}");
                println!("  stage={stage} kind={} :: {}", f.kind, engine::truncate(&f.msg, 800));
                std::process::exit(1);
            }
        }
    }

    // committed regression cases first: a fixed defect that returns is reported again
    let mut regress_n = 0u64;
    for (path, stage, case) in engine::load_regress(&id) {
        regress_n += 1;
        if let Err(f) = replay_guarded(&id, &eng, &stage, &case, &path) {
            if f.kind == "machinery" {
                println!("INCONCLUSIVE regress file {}: {}", path.display(), f.msg);
                std::process::exit(2);
            }
            if eng.known.iter().any(|k| k.sig == f.kind) {
                continue;
            }
            println!("VIOLATION property={} replay={}", id, path.display());
            println!("  stage={stage} kind={} :: {}", f.kind, engine::truncate(&f.msg, 800));
            eng.violations.lock().unwrap().push(engine::Violation {
                stage,
                kind: f.kind,
                msg: f.msg,
                replay: path,
            });
        }
    }
    eng.selftest_count("regress_files_replayed", regress_n);
    if !eng.has_violation() {
        props::run(&id, &eng);
    }
    std::process::exit(eng.finish());
}

/// One stored case under the per-case deadline: a replayed hang must end the process with a verdict
/// (violation for the properties that speak about termination, inconclusive otherwise), not hang it.
fn replay_guarded(id: &str, eng: &Engine, stage: &str, case: &serde_json::Value, path: &std::path::Path) -> engine::CaseResult {
    let (tx, rx) = std::sync::mpsc::channel();
    std::thread::scope(|s| {
        s.spawn(move || {
            let _ = tx.send(props::replay(id, eng, stage, case));
        });
        match rx.recv_timeout(eng.case_deadline) {
            Ok(r) => r,
            Err(std::sync::mpsc::RecvTimeoutError::Timeout) => {
                if eng.hang_is_violation {
                    println!("VIOLATION property={id} replay={}", path.display());
                    println!("  stage={stage} kind=hang :: case did not finish within {:?}", eng.case_deadline);
                    std::process::exit(1);
                }
                println!("INCONCLUSIVE property={id} stage={stage} the replayed case exceeded the {:?} deadline", eng.case_deadline);
                std::process::exit(2);
            }
            Err(std::sync::mpsc::RecvTimeoutError::Disconnected) => Err(engine::Failure::new("panic", "the thread replaying the case died".to_string())),
        }
    })
}
