//! ad-hoc experiments (not part of any check)
use crate::gen::dicts::DictSpec;
use crate::model::frame;
use crate::model::synth::*;
use crate::refz;

/// offset-code histogram per block of what the compressor makes of the graded-copies data kind
pub fn graded() {
    use crate::gen::data::DataSpec;
    for (len, a) in [(131072u32, 0u16), (131072, 5), (60000, 9), (262144, 2), (131072, 8)] {
        let d = DataSpec { kind: 10, len, seed: 7, a, b: 40 }.render();
        let f = ruzstd::encoding::compress_to_vec(&d[..], ruzstd::encoding::CompressionLevel::Fastest);
        let info = crate::model::frame::walk(&f, &Default::default()).unwrap();
        for (bi, b) in info.blocks.iter().enumerate() {
            if let Some(q) = &b.seq {
                let mut h = [0u32; 32];
                for s in &q.seqs {
                    h[(31 - (s.offset + 3).leading_zeros()) as usize] += 1;
                }
                println!("len {len} a {a} block {bi} type {} nseq {} of_mode {} of_log {} hist {:?}", b.btype, q.nseq, q.modes[1], q.logs[1], &h[..20]);
            } else {
                println!("len {len} a {a} block {bi} type {} (no sequences)", b.btype);
            }
        }
    }
}

pub fn run(what: &str) {
    if what == "graded" {
        return graded();
    }
    match what {
        "dict-beyond" => {
            for seed in 0..6u32 {
                let ds = DictSpec { kind: (seed % 2) as u8, seed, size: 2000, id: 77, level: 3, vocab: 20, rep_patch: None, pad_kib: 0 };
                let b = ds.build().unwrap();
                let m = frame::parse_dict(&b.bytes).unwrap();
                println!("dict {} bytes, model entropy_len {} content {}", b.bytes.len(), m.entropy_len, m.content.len());
                for extra in [0i64, 1, 2, 5, 20, 100] {
                    // one compressed block: 4 literals, one match of 4 bytes at distance dict_content + 4 + extra - ... (FromFar)
                    let spec = FrameSpec {
                        single_segment: false, window_desc: 0x40, fcs_bytes: 0, checksum: false, dict_id_bytes: 4, zero_dict_id: false,
                        blocks: vec![BlockSpec::Comp(CompSpec { literals: vec![1, 2, 3, 4], lit_mode: 0, lit_fmt: 0, huf_shape: 0, huf_fse: false,
                            seqs: vec![SeqSpec { ll: 4, ml: 4, off: if extra == 0 { OffSpec::FromFar(0) } else { OffSpec::Beyond((extra - 1) as u8) } }],
                            count_fmt: 0, modes: [0, 0, 0], tables: [(6, 1), (6, 1), (6, 1)] })],
                    };
                    let out = synth(&spec, Some(&m), false);
                    let r = refz::decompress(&out.bytes, Some(&b.bytes), 1 << 20);
                    let mut dec = ruzstd::decoding::FrameDecoder::new();
                    dec.add_dict(ruzstd::decoding::Dictionary::decode_dict(&b.bytes).unwrap()).unwrap();
                    let mut o = vec![0u8; 100];
                    let rr = dec.decode_all(&out.bytes, &mut o);
                    println!("  beyond+{extra}: reference {:?} ruzstd {:?}", r.as_ref().map(|v| v.len()).map_err(|e| e.clone()), rr.map_err(|e| format!("{e}")));
                }
            }
        }
        "f5" => {
            use crate::gen::data::DataSpec;
            let mut fails = 0;
            let mut total = 0;
            let mut hist = std::collections::BTreeMap::new();
            for seed in 0..400u32 {
                for a in [0u16, 4, 6] {
                    let b = 1 + (seed % 3) as u16;
                    let d = DataSpec { kind: 6, len: 131072 + 1025 + (seed * 371) % 100000, seed, a, b };
                    let data = d.render();
                    let f = ruzstd::encoding::compress_to_vec(&data[..], ruzstd::encoding::CompressionLevel::Fastest);
                    total += 1;
                    let ok = refz::decompress(&f, None, data.len() + 1).map(|x| x == data).unwrap_or(false);
                    if !ok { fails += 1; }
                    if let Ok(info) = frame::walk(&f, &Default::default()) {
                        let key = info.blocks.iter().map(|b| format!("{}{}", b.btype, b.lit.as_ref().map(|l| l.ltype.to_string()).unwrap_or_default())).collect::<Vec<_>>().join(",");
                        *hist.entry(key).or_insert(0) += 1;
                    } else {
                        *hist.entry("walk-failed".to_string()).or_insert(0) += 1;
                    }
                }
            }
            println!("f5 family: {fails}/{total} corrupt; block shapes {hist:?}");
        }
        _ => println!("unknown debug target"),
    }
}

pub fn replay_c16(path: &str) {
    let t = std::fs::read_to_string(path).unwrap();
    let v: serde_json::Value = serde_json::from_str(&t).unwrap();
    let case: crate::props::c16::Case = serde_json::from_value(v["case"].clone()).unwrap();
    if let crate::props::c16::Case::Generated(pc) = &case {
        let s = crate::props::c16::render(pc);
        println!("window {} data {} blocks {:?}", s.window, s.data.len(), s.blocks.iter().map(|b| (b.len, b.seqs.clone())).collect::<Vec<_>>());
    }
}
