//! ad-hoc experiments (not part of any check)
use crate::gen::dicts::DictSpec;
use crate::model::frame;
use crate::model::synth::*;
use crate::refz;

pub fn run(what: &str) {
    match what {
        "dict-beyond" => {
            for seed in 0..6u32 {
                let ds = DictSpec { kind: (seed % 2) as u8, seed, size: 2000, id: 77, level: 3, vocab: 20, rep_patch: None };
                let b = ds.build().unwrap();
                let m = frame::parse_dict(&b.bytes).unwrap();
                println!("dict {} bytes, model entropy_len {} content {}", b.bytes.len(), m.entropy_len, m.content.len());
                for extra in [0i64, 1, 2, 5, 20, 100] {
                    // one compressed block: 4 literals, one match of 4 bytes at distance dict_content + 4 + extra - ... (FromFar)
                    let spec = FrameSpec {
                        single_segment: false, window_desc: 0x40, fcs_bytes: 0, checksum: false, dict_id_bytes: 4,
                        blocks: vec![BlockSpec::Comp(CompSpec { literals: vec![1, 2, 3, 4], lit_mode: 0, lit_fmt: 0, huf_shape: 0, huf_fse: false,
                            seqs: vec![SeqSpec { ll: 4, ml: 4, off: if extra == 0 { OffSpec::FromFar(0) } else { OffSpec::Beyond((extra - 1) as u8) } }],
                            count_fmt: 0, modes: [0, 0, 0], tables: [(6, 1), (6, 1), (6, 1)] })],
                    };
                    let out = synth(&spec, Some(&m), false);
                    let r = refz::decompress(&out.bytes, Some(&b.bytes), 1 << 20);
                    let mut dec = ruzstd::decoding::FrameDecoder::new();
                    dec.add_dict(ruzstd::decoding::Dictionary::decode_dict(&b.bytes).unwrap()).unwrap();
                    let mut o = vec![0u8; 100];
                    let rr = dec.decode_all(&out.bytes, &mut o);
                    println!("  beyond+{extra}: reference {:?} ruzstd {:?}", r.as_ref().map(|v| v.len()).map_err(|e| e.clone()), rr.map_err(|e| format!("{e}")));
                }
            }
        }
        _ => println!("unknown debug target"),
    }
}
