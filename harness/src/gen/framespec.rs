//! Generated frame specs for the synthesizer (frame source 3).

use super::data::DataSpec;
use crate::model::codes::{LL_TABLE, ML_TABLE};
use crate::model::synth::*;
use proptest::prelude::*;

fn ll_strategy() -> impl Strategy<Value = u32> {
    let mut edges: Vec<u32> = vec![];
    for (b, bits) in LL_TABLE.iter() {
        edges.push(*b);
        edges.push(b + (1u32 << bits) - 1);
    }
    prop_oneof![
        4 => Just(0u32),
        4 => 1u32..=16,
        3 => prop::sample::select(edges),
        2 => 0u32..=300,
        1 => 0u32..=70_000,
    ]
}

fn ml_strategy() -> impl Strategy<Value = u32> {
    let mut edges: Vec<u32> = vec![];
    for (b, bits) in ML_TABLE.iter() {
        edges.push(*b);
        edges.push(b + (1u32 << bits) - 1);
    }
    prop_oneof![
        4 => 3u32..=8,
        3 => prop::sample::select(edges),
        3 => 3u32..=140,
        1 => 3u32..=3000,
        1 => 3u32..=131_074,
    ]
}

fn off_strategy() -> impl Strategy<Value = OffSpec> {
    prop_oneof![
        4 => (1u8..=3).prop_map(OffSpec::Rep),
        3 => any::<u16>().prop_map(OffSpec::Frac),
        2 => (0u32..=8).prop_map(OffSpec::FromFar),
        3 => (1u32..=9).prop_map(OffSpec::Abs),
        2 => (0u32..=27, -1i32..=1).prop_map(|(e, d)| OffSpec::Abs(((1i64 << e) + d as i64).max(1) as u32)),
    ]
}

fn seq_strategy() -> impl Strategy<Value = SeqSpec> {
    (ll_strategy(), ml_strategy(), off_strategy()).prop_map(|(ll, ml, off)| SeqSpec { ll, ml, off })
}

fn literals_strategy(big: bool) -> impl Strategy<Value = Vec<u8>> {
    let len = prop_oneof![
        2 => Just(0u32),
        4 => 1u32..=40,
        3 => 1u32..=1100,
        2 => 1000u32..=17_000,
        1 => 0u32..=(if big { 131_072 } else { 40_000 }),
    ];
    // literal bytes: small alphabets compress with Huffman, constant ones allow RLE
    let kind = prop_oneof![
        1 => Just(0u8), 3 => Just(2u8), 2 => Just(4u8), 2 => Just(5u8), 2 => Just(8u8), 1 => Just(9u8)
    ];
    (kind, len, any::<u32>(), any::<u16>(), any::<u16>()).prop_map(|(kind, len, seed, a, b)| {
        DataSpec {
            kind,
            len,
            seed,
            a,
            b,
        }
        .render()
    })
}

pub fn comp_strategy(max_seqs: usize, big: bool) -> impl Strategy<Value = CompSpec> {
    let nseq = prop_oneof![
        2 => Just(0usize),
        6 => 1usize..=6,
        3 => 1usize..=40,
        2 => 120usize..=300,
        1 => 1usize..=max_seqs.max(2),
    ];
    let seqs = nseq.prop_flat_map(|n| prop::collection::vec(seq_strategy(), n..=n));
    let lit_mode = prop_oneof![2 => Just(0u8), 1 => Just(1u8), 4 => Just(2u8), 3 => Just(3u8)];
    (
        (literals_strategy(big), lit_mode, 0u8..=3, prop_oneof![Just(0u32), any::<u32>()], any::<bool>()),
        (seqs, 0u8..=2, [0u8..=3, 0u8..=3, 0u8..=3]),
        [(5u8..=9, any::<u32>()), (5u8..=9, any::<u32>()), (5u8..=9, any::<u32>())],
    )
        .prop_map(
            |((literals, lit_mode, lit_fmt, huf_shape, huf_fse), (seqs, count_fmt, modes), tables)| CompSpec {
                literals,
                lit_mode,
                lit_fmt,
                huf_shape,
                huf_fse,
                seqs,
                count_fmt,
                modes,
                tables,
            },
        )
}

pub fn block_strategy(max_seqs: usize, big: bool) -> impl Strategy<Value = BlockSpec> {
    let raw_len = prop_oneof![2 => Just(0usize), 4 => 1usize..=64, 2 => 1usize..=3000, 1 => 0usize..=(if big {131_072} else {20_000})];
    let rle_len = prop_oneof![1 => Just(0u32), 3 => 1u32..=64, 2 => 1u32..=5000, 2 => 131_000u32..=131_072, 1 => 0u32..=131_072];
    prop_oneof![
        2 => (raw_len, any::<u32>()).prop_map(|(n, seed)| {
            let mut r = Rng(seed as u64);
            BlockSpec::Raw { data: (0..n).map(|_| r.next() as u8).collect() }
        }),
        2 => (any::<u8>(), rle_len).prop_map(|(byte, len)| BlockSpec::Rle { byte, len }),
        7 => comp_strategy(max_seqs, big).prop_map(BlockSpec::Comp),
    ]
}

/// `max_exp`: largest window exponent (window = 2^(10+exp)); `max_seqs`: largest sequence count.
pub fn framespec_strategy(max_exp: u8, max_seqs: usize, big: bool) -> impl Strategy<Value = FrameSpec> {
    let wd = prop_oneof![
        4 => (0u8..=7, 0u8..=7).prop_map(|(e, m)| (e << 3) | m),
        3 => (0u8..=max_exp, 0u8..=7).prop_map(|(e, m)| (e << 3) | m),
    ];
    let nblocks = prop_oneof![1 => Just(0usize), 5 => 1usize..=4, 3 => 1usize..=9, 1 => 20usize..=60];
    let blocks = nblocks.prop_flat_map(move |n| prop::collection::vec(block_strategy(max_seqs, big), n..=n));
    (
        prop::bool::weighted(0.25),
        wd,
        prop::sample::select(vec![0u8, 1, 2, 4, 8]),
        any::<bool>(),
        prop::sample::select(vec![0u8, 1, 2, 4]),
        blocks,
    )
        .prop_map(|(single_segment, window_desc, fcs_bytes, checksum, dict_id_bytes, blocks)| FrameSpec {
            single_segment,
            window_desc,
            fcs_bytes,
            checksum,
            dict_id_bytes,
            // derived, so that the tuple (and with it every stored case) keeps its shape: about a
            // quarter of the dictionary-less frames that ask for an id width spell out "id 0"
            zero_dict_id: dict_id_bytes > 0 && (window_desc as usize + blocks.len()) % 3 == 0,
            blocks,
        })
}
