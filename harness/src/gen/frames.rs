//! The three frame sources of DESIGN 2.3 behind one case type.

use super::data::{data_strategy, DataSpec};
use super::framespec::framespec_strategy;
use super::refcfg::refcfg_strategy;
use crate::engine::{CaseCtx, Tier};
use crate::model::frame::{self, FrameInfo};
use crate::model::synth::{synth, FrameSpec};
use crate::refz::{self, RefCfg, Seq};
use proptest::prelude::*;
use serde::{Deserialize, Serialize};

#[derive(Clone, Debug, Serialize, Deserialize)]
pub enum FrameCase {
    /// source 1: reference-compressed
    Ref { data: DataSpec, cfg: RefCfg },
    /// source 2: reference parse, perturbed while staying valid, through ZSTD_compressSequences
    Seq { data: DataSpec, level: i32, perturb: u8, k: u8, wlog: u32, checksum: bool },
    /// source 3: synthesized
    Synth(FrameSpec),
}

pub struct Built {
    pub frame: Vec<u8>,
    pub content: Vec<u8>,
    pub source: &'static str,
}

pub enum Skip {
    /// the reference compressor refused the configuration (not a finding)
    RefRefused(String),
    /// the reference decoder does not accept / reproduce the synthesized frame: generator imprecision
    SynthRejected(String),
}

/// Split the reference parse into blocks and perturb it.
fn perturbed_blocks(raw: &[Seq], perturb: u8, k: u8) -> Vec<(usize, Vec<Seq>)> {
    let mut blocks = vec![];
    let mut cur: Vec<Seq> = vec![];
    let mut len = 0usize;
    let mut pending_lit = 0u32; // literals of dropped matches, carried into the next sequence
    let k = k.max(1) as u32;
    let mut idx = 0u32;
    for s in raw {
        if s.offset == 0 && s.match_len == 0 {
            // block delimiter
            len += s.lit_len as usize;
            let _ = pending_lit;
            pending_lit = 0;
            blocks.push((len, std::mem::take(&mut cur)));
            len = 0;
            continue;
        }
        len += (s.lit_len + s.match_len) as usize;
        idx += 1;
        match perturb % 4 {
            // as produced
            0 => {
                cur.push(Seq { lit_len: s.lit_len + pending_lit, ..*s });
                pending_lit = 0;
            }
            // split every match into pieces of 3 + (k % 6) bytes: many sequences, zero literal lengths
            1 => {
                let piece = 3 + (k % 6);
                let mut left = s.match_len;
                let mut ll = s.lit_len + pending_lit;
                pending_lit = 0;
                while left > 0 {
                    let take = if left >= piece + 3 { piece } else { left };
                    cur.push(Seq { offset: s.offset, lit_len: ll, match_len: take });
                    ll = 0;
                    left -= take;
                }
            }
            // every k-th match becomes literals
            2 => {
                if idx % (k + 1) == 0 {
                    pending_lit += s.lit_len + s.match_len;
                } else {
                    cur.push(Seq { lit_len: s.lit_len + pending_lit, ..*s });
                    pending_lit = 0;
                }
            }
            // shorten matches to at most 3 + k, the remainder becomes literals of the next sequence
            _ => {
                let keep = s.match_len.min(3 + k);
                cur.push(Seq { offset: s.offset, lit_len: s.lit_len + pending_lit, match_len: keep });
                pending_lit = s.match_len - keep;
            }
        }
    }
    if !cur.is_empty() || len > 0 {
        blocks.push((len, cur));
    }
    blocks
}

impl FrameCase {
    pub fn build(&self) -> Result<Built, Skip> {
        match self {
            FrameCase::Ref { data, cfg } => {
                let content = data.render();
                let frame = refz::compress(&content, cfg, None).map_err(Skip::RefRefused)?;
                Ok(Built { frame, content, source: "src:reference" })
            }
            FrameCase::Seq { data, level, perturb, k, wlog, checksum } => {
                let content = data.render();
                let raw = refz::generate_sequences(&content, *level, *wlog, 3).map_err(|e| Skip::RefRefused(format!("generate_sequences: {e} level={level} wlog={wlog} data={data:?}")))?;
                let blocks = perturbed_blocks(&raw, *perturb, *k);
                let total: usize = blocks.iter().map(|b| b.0).sum();
                if total != content.len() {
                    return Err(Skip::RefRefused(format!("parse covers {total} of {} bytes", content.len())));
                }
                let wlog_c = if *wlog == 0 { 24 } else { *wlog };
                let frame = refz::compress_sequences(&content, &blocks, wlog_c, *checksum, true).map_err(|e| Skip::RefRefused(format!("compress_sequences: {e}")))?;
                match refz::decompress(&frame, None, content.len() + 1) {
                    Ok(d) if d == content => Ok(Built { frame, content, source: "src:sequence_directed" }),
                    Ok(_) => Err(Skip::SynthRejected("reference decodes sequence-directed frame differently".into())),
                    Err(e) => Err(Skip::SynthRejected(e)),
                }
            }
            FrameCase::Synth(spec) => {
                let out = synth(spec, None, false);
                match refz::decompress(&out.bytes, None, out.content.len() + 1) {
                    Ok(d) if d == out.content => Ok(Built { frame: out.bytes, content: out.content, source: "src:synthesized" }),
                    Ok(d) => Err(Skip::SynthRejected(format!("reference decodes to {} bytes, executor says {}", d.len(), out.content.len()))),
                    Err(e) => {
                        if std::env::var("VERIF_DEBUG").is_ok() && out.bytes.len() < 200 {
                            eprintln!("REJ {e} frame={} content_len={} spec={}", crate::props::c01::hexhead(&out.bytes[..out.bytes.len().min(48)]), out.content.len(), serde_json::to_string(spec).unwrap());
                        }
                        Err(Skip::SynthRejected(e))
                    }
                }
            }
        }
    }
}

/// Frames whose content tends to exceed a small window and to span several blocks (so that
/// draining mid-frame, window retention and ring wrap-around matter).
pub fn frame_case_small_window(tier: Tier) -> impl Strategy<Value = FrameCase> {
    let max_len = match tier {
        Tier::Quick => 600_000u32,
        Tier::Thorough => 4_000_000u32,
    };
    let len = prop_oneof![2 => 2_000u32..=40_000, 3 => 20_000u32..=300_000, 1 => 100_000u32..=max_len];
    let data = (data_strategy(max_len), len).prop_map(|(mut d, len)| {
        if d.kind != 6 {
            d.len = len;
        }
        d
    });
    let cfg = (refcfg_strategy(14), 10u32..=14, prop_oneof![Just(0u32), 1024u32..=8192]).prop_map(|(mut c, w, mb)| {
        c.window_log = w;
        c.ldm = false;
        if c.max_block == 0 {
            c.max_block = mb;
        }
        c
    });
    prop_oneof![
        6 => (data, cfg).prop_map(|(data, cfg)| FrameCase::Ref { data, cfg }),
        3 => framespec_strategy(4, 300, false).prop_map(|mut s| {
            s.single_segment = false;
            s.window_desc &= 0x1F; // exponent 0..=3: windows 1 KiB .. 15 KiB
            FrameCase::Synth(s)
        }),
    ]
}

pub fn frame_case_strategy(tier: Tier) -> impl Strategy<Value = FrameCase> {
    let (max_len, max_wlog, max_exp, max_seqs, big) = match tier {
        Tier::Quick => (1u32 << 20, 22, 12u8, 2000usize, false),
        Tier::Thorough => (1u32 << 23, 27, 17u8, 40_000usize, true),
    };
    frame_case_custom(max_len, max_wlog, max_exp, max_seqs, big)
}

pub fn frame_case_custom(max_len: u32, max_wlog: u32, max_exp: u8, max_seqs: usize, big: bool) -> impl Strategy<Value = FrameCase> {
    prop_oneof![
        12 => (data_strategy(max_len), refcfg_strategy(max_wlog)).prop_map(|(data, cfg)| FrameCase::Ref { data, cfg }),
        3 => (data_strategy(max_len.min(1 << 19)), prop_oneof![1i32..=5, 1i32..=19], 0u8..=3, 0u8..=40, prop_oneof![Just(0u32), 10u32..=20], any::<bool>())
            .prop_map(|(mut data, level, perturb, k, wlog, checksum)| {
                // ZSTD_generateSequences refuses inputs whose last block is shorter than a few bytes
                if data.len % crate::gen::data::BLOCK < 16 {
                    data.len += 16;
                }
                FrameCase::Seq { data, level, perturb, k, wlog, checksum }
            }),
        5 => framespec_strategy(max_exp, max_seqs, big).prop_map(FrameCase::Synth),
    ]
}

/// Fold the walker's description into feature labels (DESIGN 2.4). Returns "non-trivial".
pub fn label_features(info: &FrameInfo, ctx: &mut CaseCtx) -> bool {
    const LT: [[&str; 4]; 4] = [
        ["lit:raw:fmt0", "lit:raw:fmt1", "lit:raw:fmt2", "lit:raw:fmt3"],
        ["lit:rle:fmt0", "lit:rle:fmt1", "lit:rle:fmt2", "lit:rle:fmt3"],
        ["lit:huf:1stream", "lit:huf:4stream10", "lit:huf:4stream14", "lit:huf:4stream18"],
        ["lit:treeless:1stream", "lit:treeless:4stream10", "lit:treeless:4stream14", "lit:treeless:4stream18"],
    ];
    const MODES: [[&str; 4]; 3] = [
        ["ll:predefined", "ll:rle", "ll:fse", "ll:repeat"],
        ["of:predefined", "of:rle", "of:fse", "of:repeat"],
        ["ml:predefined", "ml:rle", "ml:fse", "ml:repeat"],
    ];
    const TRANS: [&str; 16] = [
        "mode:pre>pre", "mode:pre>rle", "mode:pre>fse", "mode:pre>repeat",
        "mode:rle>pre", "mode:rle>rle", "mode:rle>fse", "mode:rle>repeat",
        "mode:fse>pre", "mode:fse>rle", "mode:fse>fse", "mode:fse>repeat",
        "mode:repeat>pre", "mode:repeat>rle", "mode:repeat>fse", "mode:repeat>repeat",
    ];
    let h = &info.header;
    ctx.feat_if(h.single_segment, "hdr:single_segment");
    ctx.feat_if(h.checksum_flag, "hdr:checksum");
    ctx.feat_if(h.dict_id.is_some(), "hdr:dict_id");
    ctx.feat_if(h.dict_id.is_none() && h.dict_id_bytes > 0, "hdr:dict_id_field_holding_zero");
    ctx.feat(match h.fcs_bytes {
        0 => "hdr:fcs0",
        1 => "hdr:fcs1",
        2 => "hdr:fcs2",
        4 => "hdr:fcs4",
        _ => "hdr:fcs8",
    });
    if !h.single_segment {
        ctx.feat(match h.window_size {
            0..=1024 => "win:1K",
            1025..=65536 => "win:<=64K",
            65537..=1048576 => "win:<=1M",
            1048577..=8388608 => "win:<=8M",
            _ => "win:>8M",
        });
    }
    ctx.feat(match info.blocks.len() {
        0..=1 => "blocks:1",
        2..=8 => "blocks:2-8",
        _ => "blocks:9+",
    });
    ctx.feat_if(info.content.len() as u64 > h.window_size && !h.single_segment, "content>window");
    let mut nontrivial = false;
    let mut prev_modes: Option<[u8; 3]> = None;
    for b in &info.blocks {
        ctx.feat(match b.btype {
            0 => "block:raw",
            1 => "block:rle",
            _ => "block:compressed",
        });
        ctx.feat_if(b.regen == 0, "block:empty");
        if let Some(l) = &b.lit {
            ctx.feat(LT[l.ltype as usize][l.size_format as usize]);
            if l.ltype >= 2 {
                nontrivial = true;
            }
            ctx.feat_if(l.ltype == 2 && l.fse_weights, "huf:weights_fse");
            ctx.feat_if(l.ltype == 2 && !l.fse_weights, "huf:weights_direct");
            ctx.feat_if(l.ltype >= 2 && l.max_bits == 11, "huf:depth11");
        }
        if let Some(s) = &b.seq {
            if s.nseq > 0 {
                nontrivial = true;
                for t in 0..3 {
                    ctx.feat(MODES[t][s.modes[t] as usize]);
                    if let Some(p) = prev_modes {
                        ctx.feat(TRANS[(p[t] * 4 + s.modes[t]) as usize]);
                    }
                }
                prev_modes = Some(s.modes);
                ctx.feat(match s.count_bytes {
                    1 => "count:1byte",
                    2 => "count:2byte",
                    _ => "count:3byte",
                });
                ctx.feat_if(s.count_bytes == 2 && s.nseq < 128, "count:nonminimal");
                for q in &s.seqs {
                    if q.of_value <= 3 {
                        ctx.feat(match (q.of_value, q.ll == 0) {
                            (1, false) => "rep:1",
                            (2, false) => "rep:2",
                            (3, false) => "rep:3",
                            (1, true) => "rep:1_ll0",
                            (2, true) => "rep:2_ll0",
                            _ => "rep:3_ll0(rep1-1)",
                        });
                    }
                    ctx.feat_if((q.offset as u64) < q.ml as u64, "match:overlapping");
                    ctx.feat_if(q.ll_code >= 25, "ll:code>=25");
                    ctx.feat_if(q.ml_code >= 43, "ml:code>=43");
                    ctx.feat_if(q.of_code >= 20, "of:code>=20");
                    ctx.feat_if(q.of_code as u32 + frame_bits(q) > 56, "seq:>56_extra_bits");
                    ctx.feat_if(q.from_dict > 0, "match:from_dictionary");
                }
            } else {
                ctx.feat("seq:none");
            }
        }
    }
    nontrivial
}

fn frame_bits(q: &frame::SeqRec) -> u32 {
    crate::model::codes::LL_TABLE[q.ll_code as usize].1 as u32 + crate::model::codes::ML_TABLE[q.ml_code as usize].1 as u32
}
