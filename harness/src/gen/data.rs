//! Data generator (inputs to compressors): a compact, shrinkable description rendered by a pure
//! function. All randomness comes from the proptest-generated fields.

use crate::model::synth::Rng;
use proptest::prelude::*;
use serde::{Deserialize, Serialize};

#[derive(Clone, Debug, Serialize, Deserialize, PartialEq)]
pub struct DataSpec {
    pub kind: u8,
    pub len: u32,
    pub seed: u32,
    pub a: u16,
    pub b: u16,
}

pub const KIND_NAMES: [&str; 11] = [
    "data:constant",
    "data:runs",
    "data:markov",
    "data:lzprog",
    "data:random",
    "data:flat",
    "data:boundary",
    "data:concat",
    "data:words",
    "data:periodic",
    "data:graded_copies",
];

pub const BLOCK: u32 = 128 * 1024;

/// sizes: log-uniform with spikes on boundaries. `max` bounds the result.
pub fn len_strategy(max: u32) -> impl Strategy<Value = u32> {
    let spikes: Vec<u32> = vec![
        0, 1, 2, 3, 4, 5, 6, 7, 8, 15, 16, 17, 31, 32, 33, 255, 256, 257, 1023, 1024, 1025, 4095, 4096, 16383,
        16384, 16385, 65535, 65536,
    ];
    let kmax = (max / BLOCK).max(1);
    prop_oneof![
        3 => prop::sample::select(spikes).prop_map(move |v| v.min(max)),
        3 => (1u32..=kmax, -2i32..=2).prop_map(move |(k, d)| ((k * BLOCK) as i64 + d as i64).clamp(0, max as i64) as u32),
        6 => (0u32..=20, 0u32..65536).prop_map(move |(e, f)| {
            // log-uniform up to max
            let top = (32 - max.max(1).leading_zeros()).min(e + 1);
            let hi = 1u64 << top;
            (((hi * f as u64) >> 16) as u32).min(max)
        }),
        2 => (0u32..=max.min(70_000)),
    ]
}

pub fn data_strategy(max: u32) -> impl Strategy<Value = DataSpec> {
    let kind = prop_oneof![
        1 => Just(0u8),
        2 => Just(1u8),
        4 => Just(2u8),
        5 => Just(3u8),
        2 => Just(4u8),
        2 => Just(5u8),
        2 => Just(6u8),
        3 => Just(7u8),
        2 => Just(8u8),
        2 => Just(9u8),
        2 => Just(10u8),
    ];
    (kind, len_strategy(max), any::<u32>(), any::<u16>(), any::<u16>()).prop_map(move |(kind, len, seed, a, b)| DataSpec {
        kind,
        // the boundary family needs one full block plus a tail of a few KiB
        len: if kind == 6 { (BLOCK + 1025 + len % 100_000).min(max) } else { len },
        seed,
        a,
        b,
    })
}

fn alphabet(a: u16) -> usize {
    // bias to the interesting sizes
    match a % 16 {
        0 => 2,
        1 => 3,
        2 => 4,
        3 => 16,
        4 => 17,
        5 => 64,
        6 => 128,
        7 => 129,
        8 => 193,
        9 => 254,
        10 => 255,
        11 => 256,
        _ => 2 + (a as usize / 16) % 255,
    }
}

fn fill_markov(out: &mut Vec<u8>, n: usize, rng: &mut Rng, alpha: usize, skew: u16) {
    // order-1 Markov chain over `alpha` symbols; skew selects how peaked each row is
    let sk = 1 + (skew % 12) as u64;
    let perm: Vec<u8> = {
        let mut p: Vec<u8> = (0..=255u8).collect();
        for i in (1..256).rev() {
            let j = rng.below(i as u64 + 1) as usize;
            p.swap(i, j);
        }
        p
    };
    let mut cur = 0usize;
    for _ in 0..n {
        // geometric-ish step: small steps much more likely with high skew
        let mut step = 0usize;
        loop {
            let r = rng.below(16);
            if r < sk || step >= alpha - 1 {
                break;
            }
            step += 1 + rng.below(3) as usize;
        }
        cur = (cur * 7 + step + (rng.below(4) == 0) as usize * rng.below(alpha as u64) as usize) % alpha;
        out.push(perm[cur]);
    }
}

fn fill_lz(out: &mut Vec<u8>, n: usize, rng: &mut Rng, a: u16, b: u16) {
    let alpha = alphabet(a);
    let offs: [usize; 12] = [1, 2, 3, 4, 7, 8, 9, 16, 255, 256, 1024, 65536];
    let lens: [usize; 12] = [3, 4, 5, 6, 8, 18, 35, 36, 131, 259, 1000, 65539];
    let start = out.len();
    while out.len() - start < n {
        let left = n - (out.len() - start);
        // literal run
        let ll = match rng.below(6) {
            0 => 0,
            1 => 1,
            2 => rng.below(16) as usize,
            3 => rng.below(70) as usize,
            4 => rng.below(300) as usize,
            _ => rng.below(1 + (b as u64 % 5000)) as usize,
        }
        .min(left);
        for _ in 0..ll {
            out.push((rng.below(alpha as u64)) as u8);
        }
        let left = n - (out.len() - start);
        if left == 0 || out.is_empty() {
            continue;
        }
        let hist = out.len();
        let off = match rng.below(5) {
            0 => offs[rng.below(12) as usize],
            1 => 1 + rng.below(8) as usize,
            2 => hist - rng.below(hist.min(8) as u64) as usize,
            3 => {
                let p = 1usize << rng.below(18);
                (p as i64 + rng.below(3) as i64 - 1).max(1) as usize
            }
            _ => 1 + rng.below(hist as u64) as usize,
        }
        .clamp(1, hist);
        let ml = match rng.below(4) {
            0 => lens[rng.below(12) as usize],
            1 => 3 + rng.below(6) as usize,
            2 => 3 + rng.below(64) as usize,
            _ => 3 + rng.below(2000) as usize,
        }
        .min(left);
        for k in 0..ml {
            let byte = out[hist - off + k];
            out.push(byte);
        }
    }
}

/// The family that reaches the compressor's raw-fallback boundary (DESIGN 2.5): a first block of
/// 128 KiB over `n` byte values with an almost flat, rank-aligned histogram plus `r` planted
/// 5-byte repeats, then a strongly skewed tail with the same rank order.
fn fill_boundary(out: &mut Vec<u8>, n_total: usize, rng: &mut Rng, a: u16, b: u16) {
    let n = [255usize, 254, 193, 129, 255, 200, 255, 130][(a % 8) as usize];
    let r = (b % 5) as usize;
    let tilt = ((a / 8) % 6) as usize; // histogram tilt
    let first = (BLOCK as usize).min(n_total);
    // counts non-decreasing in the symbol index
    let mut counts = vec![first / n; n];
    let mut rest = first - (first / n) * n;
    let mut i = n;
    while rest > 0 {
        i -= 1;
        counts[i] += 1;
        rest -= 1;
        if i == 0 {
            i = n;
        }
    }
    // tilt: move `tilt * k` occurrences from low symbols to high symbols
    for k in 0..(n / 2) {
        let mv = (tilt * (n / 2 - k) / 8).min(counts[k].saturating_sub(1));
        counts[k] -= mv;
        counts[n - 1 - k] += mv;
    }
    let mut block: Vec<u8> = Vec::with_capacity(first);
    for (s, &c) in counts.iter().enumerate() {
        block.resize(block.len() + c, s as u8);
    }
    for i in (1..block.len()).rev() {
        let j = rng.below(i as u64 + 1) as usize;
        block.swap(i, j);
    }
    for _ in 0..r {
        if block.len() > 70_000 {
            let src = rng.below(50_000) as usize;
            let dst = 60_000 + rng.below(5_000) as usize;
            for k in 0..5 {
                block[dst + k] = block[src + k];
            }
        }
    }
    out.extend_from_slice(&block);
    // tail: every symbol present, counts(s) ~ 1 + s*s*k (strongly skewed, same rank order), shuffled
    let tail = n_total - first;
    if tail > 0 {
        let sq: u64 = (0..n as u64).map(|s| s * s).sum();
        let spare = tail.saturating_sub(n) as u64;
        let mut t: Vec<u8> = Vec::with_capacity(tail + n);
        for s in 0..n {
            let c = 1 + (spare * (s * s) as u64 / sq.max(1)) as usize;
            t.resize(t.len() + c, s as u8);
        }
        while t.len() < tail {
            t.push((n - 1) as u8);
        }
        for i in (1..t.len()).rev() {
            let j = rng.below(i as u64 + 1) as usize;
            t.swap(i, j);
        }
        t.truncate(tail);
        out.extend_from_slice(&t);
    }
}

const WORDS: [&str; 24] = [
    "the ", "quick ", "brown ", "fox ", "jumps ", "over ", "lazy ", "dog ", "zstd ", "frame ", "block ", "literal ",
    "sequence ", "offset ", "match ", "window ", "\n", ", ", "0123456789", "{\"key\": ", "\"value\"}", "<tag>", "</tag>",
    "========",
];

fn fill_kind(out: &mut Vec<u8>, kind: u8, n: usize, rng: &mut Rng, a: u16, b: u16) {
    match kind {
        0 => out.resize(out.len() + n, a as u8),
        1 => {
            // runs joined by single different bytes / two-byte alternation
            let start = out.len();
            if a % 3 == 0 {
                for i in 0..n {
                    out.push(if i % 2 == 0 { a as u8 } else { b as u8 });
                }
            } else {
                while out.len() - start < n {
                    let left = n - (out.len() - start);
                    let run = (1 + rng.below(1 + (b as u64 % 3000))) as usize;
                    let byte = rng.below(1 + (a as u64 % 5)) as u8;
                    out.resize(out.len() + run.min(left), byte);
                    if out.len() - start < n && rng.below(2) == 0 {
                        out.push(rng.next() as u8);
                    }
                }
            }
        }
        2 => fill_markov(out, n, rng, alphabet(a), b),
        3 => fill_lz(out, n, rng, a, b),
        4 => {
            for _ in 0..n {
                out.push(rng.next() as u8);
            }
        }
        5 => {
            let alpha = alphabet(a | 8).max(2);
            for _ in 0..n {
                out.push(rng.below(alpha as u64) as u8);
            }
        }
        6 => fill_boundary(out, n, rng, a, b),
        8 => {
            let start = out.len();
            while out.len() - start < n {
                let w = WORDS[rng.below(WORDS.len() as u64) as usize].as_bytes();
                let left = n - (out.len() - start);
                out.extend_from_slice(&w[..w.len().min(left)]);
            }
        }
        9 => {
            let period = 1 + (a as usize % 300);
            let pat: Vec<u8> = (0..period).map(|_| rng.below(1 + (b as u64 % 256)) as u8).collect();
            for i in 0..n {
                out.push(pat[i % period]);
            }
        }
        10 => {
            // per 128 KiB block (the built-in match finder's window): half a block of random bytes,
            // then short fresh pieces each followed by a copy from a distance whose offset CODE
            // cycles evenly over up to 14 codes, plus ONE copy with a code outside the cycle: a
            // flat offset-code histogram with one rare code - the shape that drives the
            // compressor's offset table to its accuracy-log limit (without the rare code its
            // normalisation, which subtracts the smallest count, collapses the histogram to ones)
            let start = out.len();
            let alpha = 16 + (b as u64 % 113);
            while out.len() - start < n {
                let bstart = out.len();
                let blen = (n - (bstart - start)).min(BLOCK as usize);
                let prefix = blen / 2;
                for _ in 0..prefix {
                    out.push(rng.below(alpha) as u8);
                }
                let lo = 3 + (a as u64 % 2);
                // codes whose whole distance range lies inside the random prefix
                let reachable = (prefix.max(2) as u64).ilog2() as u64;
                let k = (12 + (a as u64 / 4 % 3)).min(reachable.saturating_sub(lo)).max(1);
                // The compressor scales a histogram by floor(max count / number of codes): the scaled
                // sum is largest when every count lies between one and two times the number of
                // codes - so each code of the cycle gets 18..33 copies, the rest of the block is random
                let per = 18 + (b as u64 / 128 % 16);
                let mut i = 0u64;
                while out.len() - bstart < blen {
                    if i > k * per {
                        out.push(rng.below(alpha) as u8);
                        continue;
                    }
                    for _ in 0..8 + rng.below(24) {
                        out.push(rng.below(alpha) as u8);
                    }
                    let code = if i == 0 { lo - 1 } else { lo + (i - 1) % k };
                    i += 1;
                    let have = (out.len() - bstart) as u64;
                    let dist = ((1u64 << code) - 3 + rng.below(1u64 << code)).clamp(1, have) as usize;
                    let len = 6 + rng.below(11) as usize;
                    for _ in 0..len {
                        let byte = out[out.len() - dist];
                        out.push(byte);
                    }
                }
                out.truncate(bstart + blen);
            }
        }
        _ => {
            // concatenation of 2..4 parts of other kinds
            let parts = 2 + rng.below(3) as usize;
            let start = out.len();
            for p in 0..parts {
                let left = n - (out.len() - start);
                let take = if p + 1 == parts { left } else { rng.below(left as u64 + 1) as usize };
                let k = [0u8, 1, 2, 3, 4, 5, 8, 9][rng.below(8) as usize];
                let (a2, b2) = (rng.next() as u16, rng.next() as u16);
                fill_kind(out, k, take, rng, a2, b2);
            }
        }
    }
}

impl DataSpec {
    pub fn render(&self) -> Vec<u8> {
        let mut out = Vec::with_capacity(self.len as usize);
        let mut rng = Rng(self.seed as u64 | ((self.kind as u64) << 40));
        fill_kind(&mut out, self.kind % 11, self.len as usize, &mut rng, self.a, self.b);
        out.truncate(self.len as usize);
        out
    }
    pub fn kind_name(&self) -> &'static str {
        KIND_NAMES[(self.kind % 11) as usize]
    }
}
