//! Generated configurations of the reference compressor.

use crate::refz::RefCfg;
use proptest::prelude::*;

/// `max_wlog`: largest window log to request (quick 22, thorough 27)
pub fn refcfg_strategy(max_wlog: u32) -> impl Strategy<Value = RefCfg> {
    let level = prop_oneof![
        3 => -7i32..=3,
        4 => 1i32..=9,
        2 => 10i32..=19,
        1 => 20i32..=22,
    ];
    let wlog = prop_oneof![3 => Just(0u32), 3 => 10u32..=17, 2 => 10u32..=max_wlog];
    let strategy = prop_oneof![3 => Just(0u32), 2 => 1u32..=9];
    let min_match = prop_oneof![3 => Just(0u32), 2 => 3u32..=7];
    let tcb = prop_oneof![4 => Just(0u32), 1 => 1340u32..=5000, 1 => 1340u32..=100_000];
    let maxb = prop_oneof![4 => Just(0u32), 1 => 1024u32..=4096, 1 => 1024u32..=131072];
    let chunks = prop_oneof![
        3 => Just(vec![]),
        2 => prop::collection::vec((any::<u16>(), 0u8..=1), 1..6),
    ];
    (
        (level, wlog, strategy, min_match, any::<bool>(), tcb),
        (maxb, 0u8..=2, any::<bool>(), any::<bool>(), any::<bool>(), chunks),
    )
        .prop_map(
            |((level, window_log, strategy, min_match, ldm, target_cblock), (max_block, lit_mode, checksum, content_size, dict_id_flag, chunks))| {
                RefCfg {
                    level,
                    window_log,
                    strategy,
                    min_match,
                    ldm: ldm && window_log == 0 || (ldm && window_log >= 12),
                    target_cblock,
                    max_block,
                    lit_mode,
                    checksum,
                    content_size,
                    dict_id_flag,
                    chunks,
                }
            },
        )
}
