pub mod data;
pub mod frames;
pub mod framespec;
pub mod refcfg;
