pub mod data;
pub mod framespec;
pub mod refcfg;
