pub mod data;
pub mod dicts;
pub mod frames;
pub mod framespec;
pub mod refcfg;
