//! Dictionaries from the reference trainer, and inputs related to them.

use crate::model::synth::Rng;
use crate::refz;
use proptest::prelude::*;
use serde::{Deserialize, Serialize};

#[derive(Clone, Debug, Serialize, Deserialize, PartialEq)]
pub struct DictSpec {
    /// 0: ZDICT_trainFromBuffer, 1: ZDICT_finalizeDictionary over generated content
    pub kind: u8,
    pub seed: u32,
    /// requested dictionary capacity / content length
    pub size: u32,
    pub id: u32,
    pub level: i32,
    pub vocab: u8,
    /// the reference trainer always writes the repeat offsets 1, 4, 8 (= the format's defaults);
    /// to make the dictionary's offsets observable they are overwritten with these (clamped to the content)
    #[serde(default)]
    pub rep_patch: Option<[u16; 3]>,
    /// KiB of further content put IN FRONT of the trained content: dictionaries of several hundred
    /// KiB, whose older parts lie further back than window + one block from the frame's first byte
    /// (the format lets a match reach all of it while the output is still within the window)
    #[serde(default)]
    pub pad_kib: u16,
}

type DictKey = (u8, u32, u32, u32, i32, u8);
static DICT_CACHE: std::sync::LazyLock<std::sync::Mutex<std::collections::HashMap<DictKey, std::sync::Arc<Result<Vec<u8>, String>>>>> =
    std::sync::LazyLock::new(|| std::sync::Mutex::new(std::collections::HashMap::new()));

pub struct BuiltDict {
    pub bytes: Vec<u8>,
    pub samples: Vec<Vec<u8>>,
    pub id: u32,
}

fn vocabulary(seed: u32, n: usize) -> Vec<Vec<u8>> {
    let mut r = Rng(seed as u64 ^ 0xD1C7);
    (0..n)
        .map(|_| {
            let len = 2 + r.below(14) as usize;
            (0..len).map(|_| b"abcdefghijklmnopqrstuvwxyz ,.:;{}[]\"0123456789\n"[r.below(46) as usize]).collect()
        })
        .collect()
}

pub fn make_sample(vocab: &[Vec<u8>], r: &mut Rng, len: usize) -> Vec<u8> {
    let mut s = Vec::with_capacity(len + 16);
    while s.len() < len {
        if r.below(12) == 0 {
            s.push(r.next() as u8);
        } else {
            // zipf-ish choice
            let k = (r.below(vocab.len() as u64) * r.below(vocab.len() as u64) / vocab.len() as u64) as usize;
            s.extend_from_slice(&vocab[k]);
        }
    }
    s.truncate(len);
    s
}

impl DictSpec {
    pub fn build(&self) -> Result<BuiltDict, String> {
        let vocab = vocabulary(self.seed, 8 + self.vocab as usize % 120);
        let mut r = Rng(self.seed as u64);
        let nsamples = 60 + r.below(140) as usize;
        let samples: Vec<Vec<u8>> = (0..nsamples)
            .map(|_| {
                let len = 40 + r.below(1500) as usize;
                make_sample(&vocab, &mut r, len)
            })
            .collect();
        // training is by far the slowest step of many cases: small dictionaries are memoised
        // process-wide (pure function of these fields)
        let key = (self.kind % 2, self.seed, self.size, self.id, self.level, self.vocab);
        let cached = if self.size <= 8192 { DICT_CACHE.lock().unwrap().get(&key).cloned() } else { None };
        let bytes = if let Some(b) = cached {
            b.as_ref().clone()?
        } else {
            let built = if self.kind % 2 == 0 {
                refz::train_dict(&samples, (self.size as usize).clamp(512, 112 * 1024))
            } else {
                // content: spliced sample material
                let clen = (self.size as usize).clamp(8, 112 * 1024);
                let content = make_sample(&vocab, &mut r, clen);
                refz::finalize_dict(&content, &samples, clen + 4096, self.id.max(1), self.level)
            };
            if self.size <= 8192 {
                let mut c = DICT_CACHE.lock().unwrap();
                if c.len() < 4096 {
                    c.insert(key, std::sync::Arc::new(built.clone()));
                }
            }
            built?
        };
        let mut bytes = bytes;
        if self.pad_kib > 0 {
            if let Ok(m) = crate::model::frame::parse_dict(&bytes) {
                let mut r2 = Rng(self.seed as u64 ^ 0xD1C7);
                let filler = make_sample(&vocab, &mut r2, self.pad_kib as usize * 1024);
                let at = m.entropy_len;
                bytes.splice(at..at, filler);
            }
        }
        if let Some(rp) = self.rep_patch {
            if let Ok(m) = crate::model::frame::parse_dict(&bytes) {
                if m.entropy_len >= 12 && !m.content.is_empty() {
                    let at = m.entropy_len - 12;
                    for (i, v) in rp.iter().enumerate() {
                        let v = (*v as u32).clamp(1, m.content.len() as u32);
                        bytes[at + 4 * i..at + 4 * i + 4].copy_from_slice(&v.to_le_bytes());
                    }
                }
            }
        }
        let id = if bytes.len() >= 8 { u32::from_le_bytes(bytes[4..8].try_into().unwrap()) } else { 0 };
        Ok(BuiltDict { bytes, samples, id })
    }
}

pub fn dict_strategy() -> impl Strategy<Value = DictSpec> {
    (
        0u8..=1,
        any::<u32>(),
        prop_oneof![8u32..=200, 200u32..=4000, 4000u32..=114_688],
        prop_oneof![1u32..=255, 256u32..=65_535, 65_536u32..=u32::MAX],
        1i32..=19,
        any::<u8>(),
        prop::option::weighted(0.7, [1u16..=40, 1u16..=300, 1u16..=3000]),
        prop_oneof![5 => Just(0u16), 1 => 130u16..=600],
    )
        .prop_map(|(kind, seed, size, id, level, vocab, rep_patch, pad_kib)| DictSpec { kind, seed, size, id, level, vocab, rep_patch, pad_kib })
}

/// How the input of a dictionary frame relates to the dictionary.
#[derive(Clone, Debug, Serialize, Deserialize, PartialEq)]
pub struct RelatedData {
    /// 0 a training sample, 1 splices of dictionary content, 2 sample-like text longer than the window, 3 unrelated
    pub kind: u8,
    pub seed: u32,
    pub len: u32,
}

impl RelatedData {
    pub fn render(&self, d: &BuiltDict, spec: &DictSpec) -> Vec<u8> {
        let mut r = Rng(self.seed as u64);
        match self.kind % 4 {
            0 => d.samples[r.below(d.samples.len() as u64) as usize].clone(),
            1 => {
                // pieces of the dictionary (its tail is the content) at generated alignments, joined by noise
                let mut out = vec![];
                let n = d.bytes.len();
                while out.len() < self.len as usize {
                    let a = r.below(n as u64) as usize;
                    let l = 1 + r.below(300.min(n - a) as u64) as usize;
                    // bias to the very end of the dictionary: matches that end exactly at the boundary
                    let a = if r.below(3) == 0 { n - l } else { a };
                    out.extend_from_slice(&d.bytes[a..a + l]);
                    for _ in 0..r.below(6) {
                        out.push(r.next() as u8);
                    }
                }
                out.truncate(self.len as usize);
                out
            }
            2 => {
                let vocab = vocabulary(spec.seed, 8 + spec.vocab as usize % 120);
                make_sample(&vocab, &mut r, self.len as usize)
            }
            _ => (0..self.len).map(|_| r.next() as u8 & 0x3F).collect(),
        }
    }
}

pub fn related_strategy(max_len: u32) -> impl Strategy<Value = RelatedData> {
    (0u8..=3, any::<u32>(), prop_oneof![0u32..=300, 100u32..=5000, 2000u32..=max_len]).prop_map(|(kind, seed, len)| RelatedData { kind, seed, len })
}
