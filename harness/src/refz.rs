//! Thin layer over libzstd 1.5.7 (reference implementation, arbiter of validity).

use serde::{Deserialize, Serialize};
use zstd::zstd_safe::{self as zs, zstd_sys as sys};

pub fn err_name(code: usize) -> String {
    zs::get_error_name(code).to_string()
}

#[derive(Clone, Debug, Serialize, Deserialize, PartialEq)]
pub struct RefCfg {
    pub level: i32,
    /// 0 = default
    pub window_log: u32,
    /// 0 = default, 1..=9
    pub strategy: u32,
    /// 0 = default, 3..=7
    pub min_match: u32,
    pub ldm: bool,
    /// 0 = off, >= 1340
    pub target_cblock: u32,
    /// 0 = default, 1024..=131072
    pub max_block: u32,
    /// 0 auto, 1 enable (huffman), 2 disable (raw literals)
    pub lit_mode: u8,
    pub checksum: bool,
    pub content_size: bool,
    pub dict_id_flag: bool,
    /// streaming: chunk boundaries (fractions x/65536 of the input) and directive at each: 0 continue, 1 flush
    pub chunks: Vec<(u16, u8)>,
}

impl Default for RefCfg {
    fn default() -> Self {
        RefCfg {
            level: 3,
            window_log: 0,
            strategy: 0,
            min_match: 0,
            ldm: false,
            target_cblock: 0,
            max_block: 0,
            lit_mode: 0,
            checksum: false,
            content_size: true,
            dict_id_flag: true,
            chunks: vec![],
        }
    }
}

fn strategy_of(n: u32) -> zs::Strategy {
    use zs::Strategy::*;
    match n {
        1 => ZSTD_fast,
        2 => ZSTD_dfast,
        3 => ZSTD_greedy,
        4 => ZSTD_lazy,
        5 => ZSTD_lazy2,
        6 => ZSTD_btlazy2,
        7 => ZSTD_btopt,
        8 => ZSTD_btultra,
        _ => ZSTD_btultra2,
    }
}

/// Compress with the reference compressor. Err = the configuration was refused (not a finding).
thread_local! {
    // contexts are reused per thread (reset between uses): creating them afresh for every case
    // costs far more than the compression itself
    static CCTX: std::cell::RefCell<zs::CCtx<'static>> = std::cell::RefCell::new(zs::CCtx::create());
    static DCTX: std::cell::RefCell<zs::DCtx<'static>> = std::cell::RefCell::new(zs::DCtx::create());
}

pub fn compress(data: &[u8], cfg: &RefCfg, dict: Option<&[u8]>) -> Result<Vec<u8>, String> {
    CCTX.with(|c| {
        let mut c = c.borrow_mut();
        let r = compress_with(&mut c, data, cfg, dict);
        let _ = c.reset(zs::ResetDirective::SessionAndParameters);
        r
    })
}

fn compress_with(c: &mut zs::CCtx<'static>, data: &[u8], cfg: &RefCfg, dict: Option<&[u8]>) -> Result<Vec<u8>, String> {
    let e = |r: zs::SafeResult| r.map_err(|c| err_name(c));
    e(c.set_parameter(zs::CParameter::CompressionLevel(cfg.level)))?;
    if cfg.window_log != 0 {
        e(c.set_parameter(zs::CParameter::WindowLog(cfg.window_log)))?;
    }
    if cfg.strategy != 0 {
        e(c.set_parameter(zs::CParameter::Strategy(strategy_of(cfg.strategy))))?;
    }
    if cfg.min_match != 0 {
        e(c.set_parameter(zs::CParameter::MinMatch(cfg.min_match)))?;
    }
    if cfg.ldm {
        e(c.set_parameter(zs::CParameter::EnableLongDistanceMatching(true)))?;
    }
    if cfg.target_cblock != 0 {
        e(c.set_parameter(zs::CParameter::TargetCBlockSize(cfg.target_cblock)))?;
    }
    if cfg.max_block != 0 {
        e(c.set_parameter(zs::CParameter::MaxBlockSize(cfg.max_block)))?;
    }
    match cfg.lit_mode {
        1 => e(c.set_parameter(zs::CParameter::LiteralCompressionMode(zs::ParamSwitch::Enable)))?,
        2 => e(c.set_parameter(zs::CParameter::LiteralCompressionMode(zs::ParamSwitch::Disable)))?,
        _ => 0,
    };
    e(c.set_parameter(zs::CParameter::ChecksumFlag(cfg.checksum)))?;
    e(c.set_parameter(zs::CParameter::ContentSizeFlag(cfg.content_size)))?;
    e(c.set_parameter(zs::CParameter::DictIdFlag(cfg.dict_id_flag)))?;
    if let Some(d) = dict {
        e(c.load_dictionary(d))?;
    }
    let mut out: Vec<u8> = Vec::with_capacity(zs::compress_bound(data.len()) + 1024 + cfg.chunks.len() * 64);
    if cfg.chunks.is_empty() {
        if cfg.content_size {
            e(c.set_pledged_src_size(Some(data.len() as u64)))?;
        }
        let mut inb = zs::InBuffer::around(data);
        loop {
            let pos = out.len();
            let mut ob = zs::OutBuffer::around_pos(&mut out, pos);
            let r = e(c.compress_stream2(&mut ob, &mut inb, sys::ZSTD_EndDirective::ZSTD_e_end))?;
            if r == 0 {
                break;
            }
            let len = out.len();
            out.reserve(len.max(1 << 16));
        }
        return Ok(out);
    }
    // streaming with explicit chunking; the size is not pledged -> no content size field
    // (a size hint keeps the reference's tables proportional to the input)
    e(c.set_parameter(zs::CParameter::SrcSizeHint(data.len().min(i32::MAX as usize) as u32)))?;
    let mut cuts: Vec<(usize, u8)> = cfg
        .chunks
        .iter()
        .map(|&(f, d)| (((f as u64 * data.len() as u64) >> 16) as usize, d))
        .collect();
    cuts.sort();
    let mut pos = 0usize;
    let mut feed = |c: &mut zs::CCtx, part: &[u8], dir: sys::ZSTD_EndDirective, out: &mut Vec<u8>| -> Result<(), String> {
        let mut inb = zs::InBuffer::around(part);
        loop {
            if out.capacity() - out.len() < (1 << 17) {
                out.reserve(1 << 18);
            }
            let pos = out.len();
            let mut ob = zs::OutBuffer::around_pos(out, pos);
            let r = c
                .compress_stream2(&mut ob, &mut inb, dir)
                .map_err(|c| err_name(c))?;
            let done = match dir {
                sys::ZSTD_EndDirective::ZSTD_e_continue => inb.pos() == part.len(),
                _ => r == 0,
            };
            if done {
                return Ok(());
            }
        }
    };
    for (cut, d) in cuts {
        let cut = cut.clamp(pos, data.len());
        let dir = if d == 1 {
            sys::ZSTD_EndDirective::ZSTD_e_flush
        } else {
            sys::ZSTD_EndDirective::ZSTD_e_continue
        };
        feed(c, &data[pos..cut], dir, &mut out)?;
        pos = cut;
    }
    feed(c, &data[pos..], sys::ZSTD_EndDirective::ZSTD_e_end, &mut out)?;
    Ok(out)
}

/// Decode one or more concatenated frames with the reference decoder (streaming API, so frames
/// without content size work). `max_out` caps the output.
pub fn decompress(src: &[u8], dict: Option<&[u8]>, max_out: usize) -> Result<Vec<u8>, String> {
    DCTX.with(|d| {
        let mut d = d.borrow_mut();
        let r = decompress_with(&mut d, src, dict, max_out);
        let _ = d.reset(zs::ResetDirective::SessionAndParameters);
        r
    })
}

fn decompress_with(d: &mut zs::DCtx<'static>, src: &[u8], dict: Option<&[u8]>, max_out: usize) -> Result<Vec<u8>, String> {
    d.set_parameter(zs::DParameter::WindowLogMax(31))
        .map_err(err_name)?;
    if let Some(di) = dict {
        d.load_dictionary(di).map_err(err_name)?;
    }
    let mut out: Vec<u8> = Vec::with_capacity((src.len() * 4).clamp(1 << 12, 1 << 22));
    let mut inb = zs::InBuffer::around(src);
    loop {
        if out.capacity() - out.len() < (1 << 17) {
            out.reserve(out.len().max(1 << 18));
        }
        let pos = out.len();
        let mut ob = zs::OutBuffer::around_pos(&mut out, pos);
        let r = d.decompress_stream(&mut ob, &mut inb).map_err(err_name)?;
        let out_full = out.len() == out.capacity();
        if out.len() > max_out {
            return Err("reference decoder: output cap exceeded".into());
        }
        if inb.pos() == src.len() {
            if r == 0 {
                return Ok(out);
            }
            if !out_full {
                return Err("reference decoder: input ends inside a frame".into());
            }
        }
    }
}

#[derive(Debug, Clone)]
pub struct RefHeader {
    pub content_size: Option<u64>,
    pub window_size: u64,
    pub header_size: u32,
    pub dict_id: u32,
    pub checksum: bool,
    pub skippable: bool,
}

pub fn frame_header(src: &[u8]) -> Result<RefHeader, String> {
    let mut h = std::mem::MaybeUninit::<sys::ZSTD_FrameHeader>::zeroed();
    let r = unsafe { sys::ZSTD_getFrameHeader(h.as_mut_ptr(), src.as_ptr() as *const _, src.len()) };
    if unsafe { sys::ZSTD_isError(r) } != 0 {
        return Err(err_name(r));
    }
    if r != 0 {
        return Err(format!("need {r} bytes"));
    }
    let h = unsafe { h.assume_init() };
    const UNKNOWN: u64 = u64::MAX; // ZSTD_CONTENTSIZE_UNKNOWN
    Ok(RefHeader {
        content_size: if h.frameContentSize == UNKNOWN {
            None
        } else {
            Some(h.frameContentSize)
        },
        window_size: h.windowSize,
        header_size: h.headerSize,
        dict_id: h.dictID,
        checksum: h.checksumFlag != 0,
        skippable: h.frameType == sys::ZSTD_FrameType_e::ZSTD_skippableFrame,
    })
}

pub fn find_frame_size(src: &[u8]) -> Result<usize, String> {
    zs::find_frame_compressed_size(src).map_err(err_name)
}

/// ZDICT_trainFromBuffer
pub fn train_dict(samples: &[Vec<u8>], capacity: usize) -> Result<Vec<u8>, String> {
    let mut flat = vec![];
    let mut sizes = vec![];
    for s in samples {
        flat.extend_from_slice(s);
        sizes.push(s.len());
    }
    let mut out: Vec<u8> = Vec::with_capacity(capacity);
    zs::train_from_buffer(&mut out, &flat, &sizes).map_err(err_name)?;
    Ok(out)
}

/// ZDICT_finalizeDictionary: entropy tables from samples + given content and id
pub fn finalize_dict(
    content: &[u8],
    samples: &[Vec<u8>],
    capacity: usize,
    dict_id: u32,
    level: i32,
) -> Result<Vec<u8>, String> {
    let mut flat = vec![];
    let mut sizes = vec![];
    for s in samples {
        flat.extend_from_slice(s);
        sizes.push(s.len());
    }
    let mut out = vec![0u8; capacity];
    let params = sys::ZDICT_params_t {
        compressionLevel: level,
        notificationLevel: 0,
        dictID: dict_id,
    };
    let r = unsafe {
        sys::ZDICT_finalizeDictionary(
            out.as_mut_ptr() as *mut _,
            out.len(),
            content.as_ptr() as *const _,
            content.len(),
            flat.as_ptr() as *const _,
            sizes.as_ptr(),
            sizes.len() as u32,
            params,
        )
    };
    if unsafe { sys::ZDICT_isError(r) } != 0 {
        return Err(unsafe { std::ffi::CStr::from_ptr(sys::ZDICT_getErrorName(r)) }
            .to_string_lossy()
            .to_string());
    }
    out.truncate(r);
    Ok(out)
}

#[derive(Clone, Copy, Debug, Serialize, Deserialize, PartialEq)]
pub struct Seq {
    pub offset: u32,
    pub lit_len: u32,
    pub match_len: u32,
}

struct RawCCtx(*mut sys::ZSTD_CCtx);
impl Drop for RawCCtx {
    fn drop(&mut self) {
        unsafe { sys::ZSTD_freeCCtx(self.0) };
    }
}

fn set_raw(c: &RawCCtx, p: sys::ZSTD_cParameter, v: i32) -> Result<(), String> {
    let r = unsafe { sys::ZSTD_CCtx_setParameter(c.0, p, v) };
    if unsafe { sys::ZSTD_isError(r) } != 0 {
        return Err(err_name(r));
    }
    Ok(())
}

/// ZSTD_generateSequences: the reference parse of `src` (block delimiters merged away).
pub fn generate_sequences(src: &[u8], level: i32, window_log: u32, min_match: u32) -> Result<Vec<Seq>, String> {
    let c = RawCCtx(unsafe { sys::ZSTD_createCCtx() });
    set_raw(&c, sys::ZSTD_cParameter::ZSTD_c_compressionLevel, level)?;
    if window_log != 0 {
        set_raw(&c, sys::ZSTD_cParameter::ZSTD_c_windowLog, window_log as i32)?;
    }
    if min_match != 0 {
        set_raw(&c, sys::ZSTD_cParameter::ZSTD_c_minMatch, min_match as i32)?;
    }
    let cap = unsafe { sys::ZSTD_sequenceBound(src.len()) };
    let mut seqs = vec![
        sys::ZSTD_Sequence {
            offset: 0,
            litLength: 0,
            matchLength: 0,
            rep: 0
        };
        cap
    ];
    let n = unsafe {
        sys::ZSTD_generateSequences(c.0, seqs.as_mut_ptr(), cap, src.as_ptr() as *const _, src.len())
    };
    if unsafe { sys::ZSTD_isError(n) } != 0 {
        return Err(err_name(n));
    }
    Ok(seqs[..n]
        .iter()
        .map(|s| Seq {
            offset: s.offset,
            lit_len: s.litLength,
            match_len: s.matchLength,
        })
        .collect())
}

/// ZSTD_compressSequences with explicit block delimiters: `blocks` = per block the sequences
/// (a trailing literal run is expressed through the delimiter's lit_len, computed here).
pub fn compress_sequences(
    src: &[u8],
    blocks: &[(usize, Vec<Seq>)],
    window_log: u32,
    checksum: bool,
    validate: bool,
) -> Result<Vec<u8>, String> {
    let c = RawCCtx(unsafe { sys::ZSTD_createCCtx() });
    set_raw(&c, sys::ZSTD_cParameter::ZSTD_c_experimentalParam11, 1)?; // explicit block delimiters
    set_raw(&c, sys::ZSTD_cParameter::ZSTD_c_experimentalParam12, validate as i32)?;
    set_raw(&c, sys::ZSTD_cParameter::ZSTD_c_windowLog, window_log as i32)?;
    set_raw(&c, sys::ZSTD_cParameter::ZSTD_c_minMatch, 3)?;
    set_raw(&c, sys::ZSTD_cParameter::ZSTD_c_checksumFlag, checksum as i32)?;
    let mut seqs: Vec<sys::ZSTD_Sequence> = vec![];
    for (block_len, bs) in blocks {
        let mut used = 0usize;
        for s in bs {
            seqs.push(sys::ZSTD_Sequence {
                offset: s.offset,
                litLength: s.lit_len,
                matchLength: s.match_len,
                rep: 0,
            });
            used += (s.lit_len + s.match_len) as usize;
        }
        if used > *block_len {
            return Err("harness: block sequences exceed block".into());
        }
        seqs.push(sys::ZSTD_Sequence {
            offset: 0,
            litLength: (*block_len - used) as u32,
            matchLength: 0,
            rep: 0,
        });
    }
    let cap = zs::compress_bound(src.len()) + 1024 + blocks.len() * 16;
    let mut out = vec![0u8; cap];
    let r = unsafe {
        sys::ZSTD_compressSequences(
            c.0,
            out.as_mut_ptr() as *mut _,
            cap,
            seqs.as_ptr(),
            seqs.len(),
            src.as_ptr() as *const _,
            src.len(),
        )
    };
    if unsafe { sys::ZSTD_isError(r) } != 0 {
        return Err(err_name(r));
    }
    out.truncate(r);
    Ok(out)
}
