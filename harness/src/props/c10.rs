//! C10 Exact frame boundaries: consumption, multi-frame decoding, truncation detection.

use crate::drivers::CountingReader;
use crate::engine::{CaseCtx, CaseResult, Engine, Failure, Tier};
use crate::gen::frames::{frame_case_custom, FrameCase, Skip};
use crate::model::frame;
use crate::model::synth::Rng;
use crate::props::c01::hexhead;
use crate::{ensure, fail, refz};
use proptest::prelude::*;
use ruzstd::decoding::{BlockDecodingStrategy, FrameDecoder, StreamingDecoder};
use serde::{Deserialize, Serialize};
use serde_json::{json, Value};
use std::io::Read;

#[derive(Clone, Debug, Serialize, Deserialize)]
pub enum Item {
    Data(FrameCase),
    Skippable { magic_low: u8, len: u16, seed: u8 },
}

#[derive(Clone, Copy, Debug, Serialize, Deserialize, PartialEq)]
pub enum Target {
    Exact,
    Plus(u16),
    Minus(u16),
    Zero,
}

#[derive(Clone, Copy, Debug, Serialize, Deserialize, PartialEq)]
pub enum Fault {
    None,
    TruncSkippableHeader(u8),
    TruncSkippablePayload(u16),
    TrailingGarbage(u8),
    GarbageBetween(u8),
    /// the last data frame loses its final k bytes
    TruncLastFrame(u16),
}

#[derive(Clone, Debug, Serialize, Deserialize)]
pub struct MultiCase {
    pub items: Vec<Item>,
    pub target: Target,
    pub fault: Fault,
    pub vec_prefix: u8,
}

fn item_strategy(max_len: u32) -> impl Strategy<Value = Item> {
    prop_oneof![
        3 => frame_case_custom(max_len, 17, 6, 200, false).prop_map(Item::Data),
        2 => (0u8..=15, prop_oneof![Just(0u16), 1u16..=64, 1u16..=65_535], any::<u8>()).prop_map(|(magic_low, len, seed)| Item::Skippable { magic_low, len, seed }),
    ]
}

fn multi_strategy(tier: Tier) -> impl Strategy<Value = MultiCase> {
    let max_len = if tier == Tier::Quick { 60_000 } else { 400_000 };
    let target = prop_oneof![
        4 => Just(Target::Exact),
        2 => (1u16..=300).prop_map(Target::Plus),
        3 => prop_oneof![Just(1u16), 1u16..=2000].prop_map(Target::Minus),
        1 => Just(Target::Zero),
    ];
    let fault = prop_oneof![
        6 => Just(Fault::None),
        1 => (0u8..=7).prop_map(Fault::TruncSkippableHeader),
        1 => (1u16..=500).prop_map(Fault::TruncSkippablePayload),
        2 => (1u8..=16).prop_map(Fault::TrailingGarbage),
        1 => (1u8..=16).prop_map(Fault::GarbageBetween),
        2 => prop_oneof![Just(1u16), Just(4u16), 1u16..=40].prop_map(Fault::TruncLastFrame),
    ];
    (prop::collection::vec(item_strategy(max_len), 1..=8), target, fault, 0u8..=20).prop_map(|(items, target, fault, vec_prefix)| MultiCase { items, target, fault, vec_prefix })
}

fn garbage(n: u8) -> Vec<u8> {
    (0..n).map(|i| 0xD1u8.wrapping_add(i.wrapping_mul(29)) | 0x80).collect()
}

pub fn check_multi(case: &MultiCase, ctx: &mut CaseCtx) -> CaseResult {
    // assemble
    let mut input: Vec<u8> = vec![];
    let mut content: Vec<u8> = vec![];
    let mut data_frames = 0;
    let mut skippables = 0;
    let mut faulted = false;
    let mut last_data_end: Option<(usize, usize)> = None; // (start, end) of the last data frame in input
    let n_items = case.items.len();
    for (k, it) in case.items.iter().enumerate() {
        match it {
            Item::Data(fc) => {
                let b = match fc.build() {
                    Ok(b) => b,
                    Err(Skip::RefRefused(_)) | Err(Skip::SynthRejected(_)) => continue,
                };
                // frame boundary agrees with the reference
                let fl = refz::find_frame_size(&b.frame).map_err(|e| Failure::new("machinery", e))?;
                if fl != b.frame.len() {
                    return Err(Failure::new("machinery", "built frame length != ZSTD_findFrameCompressedSize"));
                }
                last_data_end = Some((input.len(), input.len() + b.frame.len()));
                input.extend_from_slice(&b.frame);
                content.extend_from_slice(&b.content);
                data_frames += 1;
            }
            Item::Skippable { magic_low, len, seed } => {
                let mut r = Rng(*seed as u64);
                let mut f = (0x184D2A50u32 + (*magic_low as u32 & 15)).to_le_bytes().to_vec();
                f.extend_from_slice(&(*len as u32).to_le_bytes());
                f.extend((0..*len).map(|_| r.next() as u8));
                let is_last = k + 1 == n_items;
                match case.fault {
                    Fault::TruncSkippableHeader(keep) if is_last && !faulted => {
                        f.truncate((keep as usize).min(7));
                        faulted = true;
                    }
                    Fault::TruncSkippablePayload(cut) if is_last && !faulted && *len > 0 => {
                        let cut = (cut as usize).min(*len as usize).max(1);
                        f.truncate(f.len() - cut);
                        faulted = true;
                    }
                    _ => {}
                }
                if f.is_empty() {
                    faulted = false; // nothing left of it: not a fault
                }
                input.extend_from_slice(&f);
                skippables += 1;
            }
        }
        if let Fault::GarbageBetween(n) = case.fault {
            if k == 0 && n_items > 1 && !faulted {
                input.extend_from_slice(&garbage(n));
                faulted = true;
            }
        }
    }
    if let Fault::TrailingGarbage(n) = case.fault {
        input.extend_from_slice(&garbage(n));
        faulted = true;
    }
    if let Fault::TruncLastFrame(k) = case.fault {
        if let Some((s, e)) = last_data_end {
            if e == input.len() && !faulted {
                let k = (k as usize).min(e - s - 1).max(1);
                input.truncate(e - k);
                faulted = true;
            }
        }
    }
    let total = content.len();
    let target = match case.target {
        Target::Exact => total,
        Target::Plus(k) => total + k as usize,
        Target::Minus(k) => total.saturating_sub(k as usize),
        Target::Zero => 0,
    };
    let too_small = target < total;
    let expect_ok = !faulted && !too_small;
    // ---- decode_all into a slice with canary bytes behind it
    let mut buf = vec![0xC7u8; target + 64];
    let mut dec = FrameDecoder::new();
    let r = dec.decode_all(&input, &mut buf[..target]);
    ensure!(buf[target..].iter().all(|&b| b == 0xC7), "write_past_target", "decode_all wrote behind its target slice");
    match (&r, expect_ok) {
        (Ok(n), true) => {
            ensure!(*n == total && buf[..total] == content[..], "multi_frame_content", "decode_all returned {n}, expected {total} bytes of concatenated content ({} data frames, {} skippable)", data_frames, skippables);
        }
        (Ok(n), false) => fail!("silent_truncation", "decode_all returned Ok({n}) although {} (total content {total}, target {target}, fault {:?}); input {}", if too_small { "the target is too small" } else { "the input is faulty" }, case.fault, hexhead(&input)),
        (Err(e), true) => fail!("valid_input_rejected", "decode_all failed on {} frames + {} skippable with target {target} >= {total}: {e}", data_frames, skippables),
        (Err(_), false) => {}
    }
    // ---- decode_all_to_vec: length/prefix unchanged on failure, no reallocation
    let prefix: Vec<u8> = (0..case.vec_prefix).map(|i| i ^ 0x33).collect();
    let mut v: Vec<u8> = Vec::with_capacity(prefix.len() + target);
    v.extend_from_slice(&prefix);
    let cap = v.capacity();
    // the call uses all spare capacity, which may exceed what was asked for
    let spare = cap - prefix.len();
    let expect_ok_vec = !faulted && spare >= total;
    let ptr = v.as_ptr();
    let mut dec2 = FrameDecoder::new();
    let r2 = dec2.decode_all_to_vec(&input, &mut v);
    ensure!(v.capacity() == cap && v.as_ptr() == ptr, "vec_reallocated", "decode_all_to_vec changed the vector's allocation");
    ensure!(v.len() >= prefix.len(), "vec_prefix_changed", "decode_all_to_vec shortened the vector below its existing content ({} -> {} bytes, result {:?})", prefix.len(), v.len(), r2.as_ref().err().map(|e| e.to_string()));
    ensure!(v[..prefix.len()] == prefix[..], "vec_prefix_changed", "decode_all_to_vec changed existing vector content");
    match (&r2, expect_ok_vec) {
        (Ok(()), true) => ensure!(v.len() == prefix.len() + total && v[prefix.len()..] == content[..], "multi_frame_content_vec", "decode_all_to_vec: length {} expected {}", v.len(), prefix.len() + total),
        (Ok(()), false) => fail!("silent_truncation_vec", "decode_all_to_vec returned Ok although spare capacity {spare} < {total} or the input is faulty ({:?})", case.fault),
        (Err(e), true) => fail!("valid_input_rejected", "decode_all_to_vec failed with spare {spare} >= {total}: {e}"),
        (Err(_), false) => ensure!(v.len() == prefix.len(), "vec_len_changed_on_failure", "decode_all_to_vec failed but the vector length went from {} to {}", prefix.len(), v.len()),
    }
    ctx.feat_if(skippables > 0, "multi:skippable");
    ctx.feat_if(data_frames >= 2, "multi:>=2_data_frames");
    ctx.feat_if(faulted, "multi:fault");
    ctx.feat_if(too_small, "multi:target_too_small");
    ctx.feat(match case.fault {
        Fault::None => "fault:none",
        Fault::TruncSkippableHeader(_) => "fault:trunc_skippable_header",
        Fault::TruncSkippablePayload(_) => "fault:trunc_skippable_payload",
        Fault::TrailingGarbage(_) => "fault:trailing_garbage",
        Fault::GarbageBetween(_) => "fault:garbage_between",
        Fault::TruncLastFrame(_) => "fault:trunc_last_frame",
    });
    ctx.nontrivial = skippables >= 1 && data_frames >= 2;
    ctx.set_hash_bytes(&[&input, format!("{:?}{:?}", case.target, case.vec_prefix).as_bytes()]);
    if ctx.nontrivial && input.len() < 160 {
        ctx.sample = Some(json!({"input_hex": hexhead(&input), "data_frames": data_frames, "skippable": skippables, "target": format!("{:?}", case.target), "fault": format!("{:?}", case.fault)}));
    }
    Ok(())
}

// ------------------------------------------------------------------------------------------------
// every strict prefix of a frame

fn is_prefix(a: &[u8], of: &[u8]) -> bool {
    a.len() <= of.len() && of[..a.len()] == *a
}

/// A complete frame with a content checksum (single segment, one raw block "warm-up!").
fn warm_frame() -> Vec<u8> {
    let data = b"warm-up!";
    let mut f = vec![0x28, 0xB5, 0x2F, 0xFD, 0x24, data.len() as u8, ((data.len() as u8) << 3) | 1, 0, 0];
    f.extend_from_slice(data);
    f.extend_from_slice(&ringops::xxh64::checksum32(data).to_le_bytes());
    f
}

/// A decoder for the prefix checks: new, or (`warm`) one that has completely decoded a checksummed
/// frame before - what a long-lived decoder looks like when the truncated frame arrives.
fn prefix_decoder(warm: bool, window: u64) -> Result<FrameDecoder, Failure> {
    let mut dec = FrameDecoder::new();
    if warm {
        let f = warm_frame();
        let mut out = [0u8; 16];
        let n = dec.decode_all(&f, &mut out).map_err(|e| Failure::new("valid_input_rejected", format!("warm-up frame {} rejected: {e}", hexhead(&f))))?;
        ensure!(&out[..n] == b"warm-up!" && dec.is_finished(), "valid_input_rejected", "warm-up frame decoded to {:?}", &out[..n]);
    }
    if window > ruzstd::decoding::DEFAULT_MAX_WINDOW_SIZE {
        dec.set_max_window_size(window);
    }
    Ok(dec)
}

fn check_prefix(frame_bytes: &[u8], content: &[u8], cut: usize, window: u64, warm: bool) -> CaseResult {
    let p = &frame_bytes[..cut];
    let cut = format!("{cut}{}", if warm { " on a decoder that completed a checksummed frame before" } else { "" });
    let cut = cut.as_str();
    // reader API: decode_blocks(All)
    {
        let mut dec = prefix_decoder(warm, window)?;
        let mut src = CountingReader { data: p, pos: 0, chunk: 0 };
        let mut delivered = vec![];
        let r = match dec.reset(&mut src) {
            Err(_) => Err(()),
            Ok(()) => {
                let r = dec.decode_blocks(&mut src, BlockDecodingStrategy::All).map_err(|_| ());
                if let Some(v) = dec.collect() {
                    delivered = v;
                }
                ensure!(!dec.is_finished(), "prefix_finished", "decode_blocks: prefix of {cut}/{} bytes reports is_finished()", frame_bytes.len());
                r
            }
        };
        ensure!(r.is_err(), "prefix_accepted", "decode_blocks(All) succeeded on a strict prefix ({cut} of {} bytes)", frame_bytes.len());
        ensure!(is_prefix(&delivered, content), "prefix_delivers_wrong_bytes", "bytes delivered from a {cut}-byte prefix are not a prefix of the content");
    }
    // StreamingDecoder
    {
        let mut dec = prefix_decoder(warm, window)?;
        let mut delivered = vec![];
        let ended_clean = match StreamingDecoder::new_with_decoder(p, &mut dec) {
            Err(_) => false,
            Ok(mut sd) => {
                let mut buf = [0u8; 777];
                loop {
                    match sd.read(&mut buf) {
                        Ok(0) => break true,
                        Ok(n) => delivered.extend_from_slice(&buf[..n]),
                        Err(_) => break false,
                    }
                }
            }
        };
        ensure!(!ended_clean, "prefix_accepted", "StreamingDecoder reached a clean end of stream on a strict prefix ({cut} of {} bytes), {} bytes delivered", frame_bytes.len(), delivered.len());
        ensure!(is_prefix(&delivered, content), "prefix_delivers_wrong_bytes", "streaming: bytes delivered from a {cut}-byte prefix are not a prefix of the content");
    }
    // decode_all (an empty input is zero frames, which is valid)
    if !p.is_empty() {
        let mut dec = prefix_decoder(warm, window)?;
        let mut out = vec![0u8; content.len() + 8];
        let r = dec.decode_all(p, &mut out);
        ensure!(r.is_err(), "prefix_accepted", "decode_all returned {:?} on a strict prefix ({cut} of {} bytes)", r.as_ref().ok(), frame_bytes.len());
    }
    // decode_from_to: wants more, never finished
    {
        let mut dec = prefix_decoder(warm, window)?;
        let mut out = vec![0u8; 4096];
        let mut pos = 0;
        let mut delivered = vec![];
        let mut rounds = 0;
        let mut header_failed = false;
        if warm {
            // decode_from_to starts a frame by itself only on a decoder without state; a used one is
            // pointed at the new frame with reset(), which reads the header
            let mut src = p;
            match dec.reset(&mut src) {
                Ok(()) => pos = p.len() - src.len(),
                Err(_) => header_failed = true,
            }
        }
        while !header_failed {
            rounds += 1;
            match dec.decode_from_to(&p[pos..], &mut out) {
                Err(_) => break,
                Ok((r, w)) => {
                    ensure!(r <= p.len() - pos, "from_to_overconsume", "decode_from_to consumed {r} of {} offered (prefix {cut})", p.len() - pos);
                    pos += r;
                    delivered.extend_from_slice(&out[..w]);
                    if r == 0 && w == 0 {
                        break;
                    }
                }
            }
            if rounds > 1_000_000 {
                fail!("from_to_stalls", "decode_from_to loops on a prefix");
            }
        }
        // state None (init failed) reports finished == true by definition (and a warm decoder whose
        // init failed still shows its previous, finished frame); only a decoder that consumed something counts
        ensure!(!(!header_failed && pos > 0 && dec.bytes_read_from_source() > 0 && dec.is_finished()), "prefix_finished", "decode_from_to: prefix of {cut}/{} bytes reports is_finished()", frame_bytes.len());
        ensure!(is_prefix(&delivered, content), "prefix_delivers_wrong_bytes", "decode_from_to: bytes delivered from a {cut}-byte prefix are not a prefix of the content");
    }
    Ok(())
}

/// The complete frame through the slice-to-slice call: alone in the slice, and followed by other
/// bytes. It must finish, deliver the content and report exactly the frame's length as consumed.
fn check_whole_from_to(frame_bytes: &[u8], content: &[u8], window: u64, warm: bool, trailing: &[u8]) -> CaseResult {
    let mut input = frame_bytes.to_vec();
    input.extend_from_slice(trailing);
    let mut dec = prefix_decoder(warm, window)?;
    let mut pos = 0usize;
    if warm {
        let mut src = &input[..];
        dec.reset(&mut src).map_err(|e| Failure::new("valid_input_rejected", format!("reset on a complete frame: {e}")))?;
        pos = input.len() - src.len();
    }
    let what = format!("complete frame of {} bytes{}{}", frame_bytes.len(), if trailing.is_empty() { " alone in the slice" } else { " followed by other bytes" }, if warm { ", on a used decoder" } else { "" });
    let mut out = vec![0u8; 8192];
    let mut delivered: Vec<u8> = vec![];
    let mut rounds = 0;
    loop {
        rounds += 1;
        let (r, w) = dec.decode_from_to(&input[pos..], &mut out).map_err(|e| Failure::new("valid_input_rejected", format!("decode_from_to on a {what}: {e}")))?;
        ensure!(r <= input.len() - pos, "from_to_overconsume", "decode_from_to consumed {r} of {} offered ({what})", input.len() - pos);
        pos += r;
        delivered.extend_from_slice(&out[..w]);
        if dec.is_finished() && dec.can_collect() == 0 {
            break;
        }
        ensure!(!(r == 0 && w == 0) && rounds < 1_000_000, "from_to_stalls", "decode_from_to makes no progress on a {what}: position {pos}, finished {}, {} bytes delivered of {}", dec.is_finished(), delivered.len(), content.len());
    }
    ensure!(pos == frame_bytes.len(), "consumed_count", "decode_from_to consumed {pos} bytes of a {what}");
    ensure!(dec.bytes_read_from_source() == frame_bytes.len() as u64, "consumed_count", "bytes_read_from_source() = {} after a {what}", dec.bytes_read_from_source());
    ensure!(delivered == content, "wrong_content", "decode_from_to delivered {} bytes, the content has {} ({what})", delivered.len(), content.len());
    Ok(())
}

pub fn check_prefixes(fc: &FrameCase, ctx: &mut CaseCtx) -> CaseResult {
    let b = match fc.build() {
        Ok(b) => b,
        Err(_) => {
            ctx.feat("skipped:frame_not_built");
            return Ok(());
        }
    };
    let n = b.frame.len();
    let rh = refz::frame_header(&b.frame).map_err(|e| Failure::new("machinery", e))?;
    let cuts: Vec<usize> = if n <= 4096 {
        (0..n).collect()
    } else {
        // structural boundaries +-1 and 64 pseudo-random points
        let mut c = vec![0, 1, 4, 5, 6, n - 1, n - 2, n - 3, n - 4, n - 5];
        if let Ok(info) = frame::walk(&b.frame, &Default::default()) {
            let mut p = info.header.header_len;
            c.extend([p - 1, p, p + 1]);
            for blk in &info.blocks {
                c.extend([p + 2, p + 3, p + 4]);
                p += 3 + blk.stored;
                c.extend([p - 1, p, p + 1]);
            }
        }
        let mut r = Rng(n as u64);
        for _ in 0..64 {
            c.push(r.below(n as u64) as usize);
        }
        c.retain(|&x| x < n);
        c.sort();
        c.dedup();
        c
    };
    let mut evals = 0u64;
    for &cut in &cuts {
        // every cut on a new decoder; near both ends, for short frames and for every third cut
        // also on a decoder that has a completed (checksummed) frame behind it
        let warm_too = n <= 1500 || cut + 8 >= n || cut <= 20 || cut % 3 == 0;
        for warm in [false, true] {
            if warm && !warm_too {
                continue;
            }
            evals += 1;
            check_prefix(&b.frame, &b.content, cut, rh.window_size, warm).map_err(|mut f| {
                f.msg = format!("{}; frame {} ({} bytes, {})", f.msg, hexhead(&b.frame), n, b.source);
                f
            })?;
        }
    }
    for warm in [false, true] {
        for trailing in [&b""[..], &[0x28, 0xB5, 0x2F][..], &b"tail!"[..]] {
            evals += 1;
            check_whole_from_to(&b.frame, &b.content, rh.window_size, warm, trailing).map_err(|mut f| {
                f.msg = format!("{}; frame {} ({} bytes, {})", f.msg, hexhead(&b.frame), n, b.source);
                f
            })?;
        }
    }
    ctx.weight = evals;
    ctx.feat("prefix:also_on_warm_decoder");
    ctx.feat("whole_frame:decode_from_to_alone_and_followed_by_other_bytes");
    ctx.feat(if n <= 4096 { "prefix:all_cuts" } else { "prefix:boundary_cuts" });
    ctx.feat_if(rh.checksum, "prefix:cut_inside_checksum");
    let has_comp = frame::walk(&b.frame, &Default::default()).map(|i| i.blocks.iter().any(|b| b.btype == 2)).unwrap_or(false);
    ctx.nontrivial = has_comp || rh.checksum;
    ctx.set_hash_bytes(&[&b.frame]);
    Ok(())
}

pub fn run(eng: &Engine) {
    eng.set_rule("(1) lists of 1..8 data frames interleaved with skippable frames (all 16 magics, payload 0..64 KiB) through decode_all / decode_all_to_vec with targets {exact, +k, -k, 0}, vectors with existing content, and faults (truncated skippable header/payload, trailing garbage, garbage between frames, truncated last frame); (2) every strict prefix of a frame (all cuts for frames <= 4 KiB, structural boundaries +-1 and 64 points otherwise) through decode_blocks, StreamingDecoder, decode_all, decode_from_to, each on a new decoder and on one that completed a checksummed frame before; the complete frame through decode_from_to, alone in the slice and followed by other bytes (exact consumed count, full content, finished); non-trivial = list with >= 1 skippable and >= 2 data frames, or a prefix family over a frame with a compressed block or a checksum; distinct by input hash");
    eng.assume("an empty input is zero frames for decode_all (valid); decode_all_to_vec may use all spare capacity of the vector");
    let tier = eng.tier;
    let n_multi = eng.tier.pick(8_000, 150_000);
    let n_pref = eng.tier.pick(1_000, 40_000);
    eng.run_stage("multi_frame", n_multi, || multi_strategy(tier), check_multi);
    let max_len = if tier == Tier::Quick { 20_000 } else { 300_000 };
    eng.run_stage("prefixes", n_pref, move || frame_case_custom(max_len, 17, 6, 200, false), check_prefixes);
}

pub fn replay(eng: &Engine, stage: &str, case: &Value) -> CaseResult {
    match stage {
        "multi_frame" => eng.replay_value(stage, case, check_multi),
        "prefixes" => eng.replay_value(stage, case, check_prefixes),
        _ => Err(Failure::new("machinery", format!("unknown stage {stage}"))),
    }
}
