use crate::engine::{CaseResult, Engine, Failure};
use serde_json::Value;

pub mod c01;
pub mod c02;
pub mod c03;
pub mod c04;
pub mod c05;
pub mod c06;
pub mod c07;
pub mod c08;
pub mod c09;
pub mod c10;
pub mod c11;
pub mod c12;
pub mod c13;
pub mod c14;
pub mod c15;
pub mod c16;
pub mod c17;
pub mod c18;
pub mod c19;
pub mod c20;

pub fn run(id: &str, eng: &Engine) {
    match id {
        "C01" => c01::run(eng),
        "C02" => c02::run(eng),
        "C03" => c03::run(eng),
        "C04" => c04::run(eng),
        "C05" => c05::run(eng),
        "C06" => c06::run(eng),
        "C07" => c07::run(eng),
        "C08" => c08::run(eng),
        "C09" => c09::run(eng),
        "C10" => c10::run(eng),
        "C11" => c11::run(eng),
        "C12" => c12::run(eng),
        "C13" => c13::run(eng),
        "C14" => c14::run(eng),
        "C15" => c15::run(eng),
        "C16" => c16::run(eng),
        "C17" => c17::run(eng),
        "C18" => c18::run(eng),
        "C19" => c19::run_check(eng),
        "C20" => c20::run(eng),
        _ => {
            println!("INCONCLUSIVE unknown property {id}");
            std::process::exit(2);
        }
    }
}

pub fn replay(id: &str, eng: &Engine, stage: &str, case: &Value) -> CaseResult {
    match id {
        "C01" => c01::replay(eng, stage, case),
        "C02" => c02::replay(eng, stage, case),
        "C03" => c03::replay(eng, stage, case),
        "C04" => c04::replay(eng, stage, case),
        "C05" => c05::replay(eng, stage, case),
        "C06" => c06::replay(eng, stage, case),
        "C07" => c07::replay(eng, stage, case),
        "C08" => c08::replay(eng, stage, case),
        "C09" => c09::replay(eng, stage, case),
        "C10" => c10::replay(eng, stage, case),
        "C11" => c11::replay(eng, stage, case),
        "C12" => c12::replay(eng, stage, case),
        "C13" => c13::replay(eng, stage, case),
        "C14" => c14::replay(eng, stage, case),
        "C15" => c15::replay(eng, stage, case),
        "C16" => c16::replay(eng, stage, case),
        "C17" => c17::replay(eng, stage, case),
        "C18" => c18::replay(eng, stage, case),
        "C19" => c19::replay(eng, stage, case),
        "C20" => c20::replay(eng, stage, case),
        _ => Err(Failure::new("machinery", format!("unknown property {id}"))),
    }
}
