//! C12 FSE tables equal the specification's; FSE encoder and decoder are exact inverses.

use crate::engine::{CaseCtx, CaseResult, Engine, Failure, Tier};
use crate::model::codes;
use crate::model::fse::{self, NCount};
use crate::model::synth::Rng;
use crate::{ensure, fail, selftest};
use proptest::prelude::*;
use ruzstd::fse::fse_encoder::{self, verif as enc};
use ruzstd::fse::{FSEDecoder, FSETable};
use ruzstd::verif_hooks::BitReaderReversed;
use serde::{Deserialize, Serialize};
use serde_json::{json, Value};

// ---------------------------------------------------------------------------------------------
// decoder side

#[derive(Clone, Debug, Serialize, Deserialize)]
pub struct DistCase {
    pub log: u8,
    /// (symbol gap before this entry, weight, less-than-one?)
    pub support: Vec<(u8, u16, bool)>,
    /// which table's limits apply: 0 LL (35, log 9) 1 OF (31, log 8) 2 ML (52, log 9) 3 huffman weights (255, log 6)
    pub which: u8,
    pub shape: u8,
    /// != 0: the description is written with zero runs cut into pieces (legal, non-canonical)
    #[serde(default)]
    pub split: u32,
}

fn limits(which: u8) -> (u8, u8) {
    match which % 4 {
        0 => (codes::MAX_LL_CODE, codes::LL_MAX_LOG),
        1 => (codes::MAX_OF_CODE, codes::OF_MAX_LOG),
        2 => (codes::MAX_ML_CODE, codes::ML_MAX_LOG),
        _ => (255, 6),
    }
}

fn dist_strategy() -> impl Strategy<Value = DistCase> {
    let entry = (prop_oneof![4 => Just(0u8), 2 => 1u8..=3, 1 => 1u8..=12, 1 => 3u8..=40], prop_oneof![Just(1u16), 1u16..=8, 1u16..=500], prop::bool::weighted(0.2));
    (5u8..=9, prop::collection::vec(entry, 1..=40), 0u8..=3, 0u8..=7, prop_oneof![2 => Just(0u32), 1 => 1u32..=u32::MAX]).prop_map(|(log, support, which, shape, split)| DistCase { log, support, which, shape, split })
}

/// build a valid NCount from the case (constructive: always valid)
fn build_ncount(c: &DistCase) -> NCount {
    if c.shape >= 6 && c.which % 4 < 3 {
        // close relatives of the predefined distribution (prefix, spelled out, extended, two entries swapped)
        let variant = c.log as u32 + 4 * c.support.len() as u32 + ((c.support[0].1 as u32) << 8);
        if let Some(nc) = crate::model::synth::derived_from_predefined((c.which % 4) as usize, variant, &[]) {
            return nc;
        }
    }
    let (max_sym, max_log) = limits(c.which);
    let log = c.log.clamp(5, max_log);
    let size = 1usize << log;
    let mut sup: Vec<(u8, u32, bool)> = vec![];
    let mut sym = 0usize;
    for (gap, w, lt1) in &c.support {
        sym += *gap as usize;
        if sym > max_sym as usize || sup.len() >= size {
            break;
        }
        let w = match c.shape % 6 {
            1 => 1,                                       // all ones (then the heaviest takes the rest)
            2 => if sup.is_empty() { 60_000 } else { 1 }, // one symbol with almost everything
            3 => 1u32 << (*w % 9),                        // powers of two
            _ => *w as u32,
        };
        sup.push((sym as u8, w.max(1), *lt1 || c.shape % 6 == 4));
        sym += 1;
    }
    if sup.is_empty() {
        sup.push((0, 1, false));
    }
    if sup.len() == 1 {
        // a single symbol must not be "less than one" alone unless the table has one slot; keep it normal
        sup[0].2 = false;
    }
    fse::make_ncount(log, &sup)
}

fn compare_tables(t: &FSETable, want: &[fse::DEntry], what: &str) -> CaseResult {
    ensure!(t.decode.len() == want.len(), "fse_table_size", "{what}: decoder table has {} states, specification {}", t.decode.len(), want.len());
    for (i, (g, w)) in t.decode.iter().zip(want.iter()).enumerate() {
        ensure!(g.symbol == w.symbol && g.num_bits == w.nb && g.base_line == w.base as u32, "fse_table_state",
            "{what}: state {i}: decoder (symbol {}, bits {}, baseline {}), specification (symbol {}, bits {}, baseline {})", g.symbol, g.num_bits, g.base_line, w.symbol, w.nb, w.base);
    }
    Ok(())
}

fn check_dist_nc(nc: &NCount, which: u8, ctx: &mut CaseCtx) -> CaseResult {
    check_dist_nc_with(nc, which, 0, ctx)
}

fn check_dist_nc_with(nc: &NCount, which: u8, split: u32, ctx: &mut CaseCtx) -> CaseResult {
    let (max_sym, max_log) = limits(which);
    let bytes = fse::write_ncount_with(nc, split);
    ctx.feat_if(split != 0 && bytes != fse::write_ncount(nc), "desc:zero_run_written_in_several_pieces");
    // the model reads its own description back (oracle self-check)
    match fse::read_ncount(&bytes, max_log, max_sym as usize) {
        Ok((back, used)) if &back == nc && used == bytes.len() => {}
        other => return Err(Failure::new("machinery", format!("model ncount writer/reader disagree for {nc:?}: {other:?}"))),
    }
    let want = fse::build_dtable(nc);
    let mut t = FSETable::new(max_sym);
    // trailing bytes must not be consumed
    let mut src = bytes.clone();
    src.extend_from_slice(&[0xA5, 0x5A, 0xFF]);
    let used = match t.build_decoder(&src, max_log) {
        Ok(u) => u,
        Err(e) => fail!("fse_valid_description_rejected", "valid distribution (log {}, {:?}) rejected: {e}", nc.log, nc.probs),
    };
    ensure!(used == bytes.len(), "fse_description_length", "description is {} bytes, decoder consumed {used} (log {}, {:?})", bytes.len(), nc.log, nc.probs);
    ensure!(t.accuracy_log == nc.log, "fse_accuracy_log", "accuracy log {} read as {}", nc.log, t.accuracy_log);
    let probs: Vec<i32> = nc.probs.iter().map(|&p| p as i32).collect();
    ensure!(t.symbol_probabilities == probs, "fse_probabilities", "probabilities {:?} read as {:?}", probs, t.symbol_probabilities);
    compare_tables(&t, &want, &format!("log {} probs {:?}", nc.log, nc.probs))?;
    if which % 4 < 3 {
        // The decoder keeps ONE table object per kind for a whole frame (and across frames): a later
        // Predefined_Mode block builds the predefined table into the object that holds this table
        // now, and a later description is built over the predefined one. Whatever the object held,
        // the result has to be the table the specification defines.
        let (plog, pprobs): (u8, &[i16]) = match which % 4 {
            0 => (codes::LL_DEFAULT_LOG, &codes::LL_DEFAULT),
            1 => (codes::OF_DEFAULT_LOG, &codes::OF_DEFAULT),
            _ => (codes::ML_DEFAULT_LOG, &codes::ML_DEFAULT),
        };
        let pwant = fse::build_dtable(&NCount { log: plog, probs: pprobs.to_vec() });
        let pp: Vec<i32> = pprobs.iter().map(|&p| p as i32).collect();
        t.build_from_probabilities(plog, &pp).map_err(|e| Failure::new("predefined_table_build", format!("{e}")))?;
        compare_tables(&t, &pwant, &format!("predefined table built into the object that held (log {}, {:?})", nc.log, nc.probs))?;
        match t.build_decoder(&src, max_log) {
            Ok(u) => ensure!(u == bytes.len(), "fse_description_length", "second build over the predefined table consumed {u} of {} bytes", bytes.len()),
            Err(e) => fail!("fse_valid_description_rejected", "valid distribution rejected when built over the predefined table: {e}"),
        }
        compare_tables(&t, &want, &format!("(log {}, {:?}) built into the object that held the predefined table", nc.log, nc.probs))?;
        ctx.feat("reuse:predefined_over_described_and_back");
        ctx.feat_if(nc.probs.len() < pprobs.len() && nc.probs[..] == pprobs[..nc.probs.len()], "dist:proper_prefix_of_the_predefined_distribution");
    }
    let n_sym = nc.probs.iter().filter(|&&p| p != 0).count();
    let has_lt1 = nc.probs.contains(&-1);
    let has_zero_run = nc.probs.windows(2).any(|w| w[0] == 0) || nc.probs.first() == Some(&0);
    ctx.feat_if(has_lt1, "dist:less_than_one");
    ctx.feat_if(has_zero_run, "dist:zero_run");
    ctx.feat_if(nc.probs.windows(4).any(|w| w.iter().all(|&p| p == 0)), "dist:zero_run>=4(repeat_flag_3)");
    ctx.feat(match nc.log {
        5 => "dist:log5",
        6 => "dist:log6",
        7 => "dist:log7",
        8 => "dist:log8",
        _ => "dist:log9",
    });
    ctx.nontrivial = n_sym >= 3 && (has_lt1 || has_zero_run);
    Ok(())
}

fn check_dist(c: &DistCase, ctx: &mut CaseCtx) -> CaseResult {
    let nc = build_ncount(c);
    check_dist_nc_with(&nc, c.which, c.split, ctx)?;
    let mut key = vec![nc.log];
    key.extend(nc.probs.iter().flat_map(|p| p.to_le_bytes()));
    ctx.set_hash_bytes(&[&key]);
    if ctx.nontrivial && nc.probs.len() <= 8 {
        ctx.sample = Some(json!({"log": nc.log, "probabilities": nc.probs}));
    }
    Ok(())
}

/// all distributions at log 5 over at most 4 present symbols within the first 6 symbol slots
fn small_family() -> Vec<Vec<i16>> {
    let mut out = vec![];
    fn rec(cur: &mut Vec<i16>, left: i32, present: usize, out: &mut Vec<Vec<i16>>) {
        if left == 0 {
            if *cur.last().unwrap() != 0 {
                out.push(cur.clone());
            }
            return;
        }
        if cur.len() >= 6 {
            return;
        }
        // zero
        if !cur.is_empty() || true {
            cur.push(0);
            rec(cur, left, present, out);
            cur.pop();
        }
        if present < 4 {
            cur.push(-1);
            rec(cur, left - 1, present + 1, out);
            cur.pop();
            for p in 1..=left {
                cur.push(p as i16);
                rec(cur, left - p, present + 1, out);
                cur.pop();
            }
        }
    }
    rec(&mut vec![], 32, 0, &mut out);
    out
}

// ---------------------------------------------------------------------------------------------
// predefined tables

fn check_predefined(eng: &Engine) -> Result<(), Failure> {
    let (ll_log, ll, ml_log, ml, of_log, of) = ruzstd::verif_hooks::default_distributions();
    let sets: [(&str, u8, &[i32], u8, &[i16], u8); 3] = [
        ("literal lengths", ll_log, &ll, codes::LL_DEFAULT_LOG, &codes::LL_DEFAULT, codes::MAX_LL_CODE),
        ("match lengths", ml_log, &ml, codes::ML_DEFAULT_LOG, &codes::ML_DEFAULT, codes::MAX_ML_CODE),
        ("offsets", of_log, &of, codes::OF_DEFAULT_LOG, &codes::OF_DEFAULT, codes::MAX_OF_CODE),
    ];
    let (e_ll, e_ml, e_of) = enc::default_tables();
    let enc_tables = [&e_ll, &e_ml, &e_of];
    for (k, (name, log, probs, wlog, wprobs, max_sym)) in sets.into_iter().enumerate() {
        let wp: Vec<i32> = wprobs.iter().map(|&p| p as i32).collect();
        ensure!(log == wlog && probs == &wp[..], "predefined_distribution", "predefined {name} distribution differs from the specification");
        let want = fse::build_dtable(&NCount { log: wlog, probs: wprobs.to_vec() });
        let mut t = FSETable::new(max_sym);
        t.build_from_probabilities(log, probs).map_err(|e| Failure::new("predefined_table_build", format!("{name}: {e}")))?;
        compare_tables(&t, &want, &format!("predefined {name} table (decoder)"))?;
        // encoder side default table: same states
        compare_encoder_states(enc_tables[k], &want, &format!("predefined {name} table (encoder)"))?;
        ensure!(enc::probabilities(enc_tables[k])[..wp.len()] == wp[..], "predefined_distribution", "encoder's predefined {name} distribution differs from the specification");
        eng.selftest_count("predefined_states_compared", want.len() as u64 * 2);
    }
    Ok(())
}

fn compare_encoder_states(t: &fse_encoder::FSETable, want: &[fse::DEntry], what: &str) -> CaseResult {
    ensure!(1usize << t.acc_log() == want.len(), "fse_encoder_table_size", "{what}: encoder table size 2^{} but specification has {} states", t.acc_log(), want.len());
    let states = enc::states(t);
    let mut seen = vec![false; want.len()];
    for (sym, list) in states.iter().enumerate() {
        for (index, baseline, nb) in list {
            ensure!(*index < want.len(), "fse_encoder_state_index", "{what}: symbol {sym} has state index {index}");
            let w = want[*index];
            ensure!(w.symbol as usize == sym && w.base as usize == *baseline && w.nb == *nb, "fse_encoder_state",
                "{what}: encoder state {index} is (symbol {sym}, baseline {baseline}, bits {nb}); the decoding table the specification derives has (symbol {}, baseline {}, bits {})", w.symbol, w.base, w.nb);
            ensure!(!seen[*index], "fse_encoder_state_duplicate", "{what}: state {index} listed twice");
            seen[*index] = true;
        }
    }
    ensure!(seen.iter().all(|&s| s), "fse_encoder_state_missing", "{what}: encoder does not list every state");
    Ok(())
}

// ---------------------------------------------------------------------------------------------
// encoder side (production parameters)

#[derive(Clone, Debug, Serialize, Deserialize)]
pub struct HistCase {
    /// 0 LL (36 symbols, log 9) 1 OF (32, log 8) 2 ML (53, log 9) 3 huffman weights (12, log 6)
    pub which: u8,
    pub shape: u8,
    pub seed: u32,
    pub len: u16,
    pub nsym: u8,
}

fn hist_strategy() -> impl Strategy<Value = HistCase> {
    (0u8..=3, prop_oneof![4 => 0u8..=7, 3 => 8u8..=9], any::<u32>(), prop_oneof![1u16..=8, 1u16..=200, 1u16..=5000, Just(43_690u16)], 1u8..=53).prop_map(|(which, shape, seed, len, nsym)| HistCase { which, shape, seed, len, nsym })
}

fn symbol_sequence(h: &HistCase) -> (Vec<u8>, u8, u8) {
    let (alpha, max_log): (u8, u8) = match h.which % 4 {
        0 => (36, 9),
        1 => (32, 8),
        2 => (53, 9),
        _ => (12, 6),
    };
    let mut r = Rng(h.seed as u64);
    let nsym = (h.nsym % alpha).max(1) as usize;
    // choose the support
    let mut syms: Vec<u8> = (0..alpha).collect();
    for i in (1..syms.len()).rev() {
        let j = r.below(i as u64 + 1) as usize;
        syms.swap(i, j);
    }
    let mut support: Vec<u8> = syms[..nsym].to_vec();
    if h.shape % 8 == 0 {
        support = vec![0]; // only code 0 (every literal length 0 / every match length 3)
    }
    if h.shape % 8 == 7 {
        support = vec![(alpha - 1).min(support[0])];
    }
    if h.shape >= 8 {
        // many codes of about the same (high) count beside many codes that occur once (shape 8) or
        // one to three times (shape 9): the histogram does not fit the largest table, the rare
        // codes cannot go below one state each and the frequent ones have to give way
        let nf = 1 + r.below(support.len() as u64) as usize;
        let base = 8 + r.below(1 + (h.len as u64 % 300)) as usize;
        let mut counts: Vec<usize> = (0..support.len())
            .map(|k| if k < nf { base + r.below(base as u64 / 8 + 1) as usize } else if h.shape == 8 { 1 } else { 1 + r.below(3) as usize })
            .collect();
        let mut data = vec![];
        // round robin, so that the stream is not sorted by symbol
        while counts.iter().any(|&c| c > 0) {
            for (k, c) in counts.iter_mut().enumerate() {
                if *c > 0 {
                    *c -= 1;
                    data.push(support[k]);
                }
            }
        }
        return (data, alpha, max_log);
    }
    let n = (h.len as usize).max(1);
    let mut data = Vec::with_capacity(n);
    for i in 0..n {
        let k = match h.shape % 8 {
            1 => i % support.len(),                                                 // flat
            2 => (r.below(support.len() as u64) * r.below(support.len() as u64) / support.len() as u64) as usize, // skewed
            3 => if r.below(200) == 0 { 1 % support.len() } else { 0 },           // one dominant + dust
            4 => if i == 0 { support.len() - 1 } else { 0 },                       // huge count vs 1
            5 => (r.below(support.len() as u64)).min(r.below(support.len() as u64)) as usize,
            _ => r.below(support.len() as u64) as usize,
        };
        data.push(support[k]);
    }
    (data, alpha, max_log)
}

fn decode_with_crate(table_bytes_and_stream: &[u8], max_sym: u8, max_log: u8, n: usize, interleaved: bool) -> Result<(Vec<u8>, isize, usize), String> {
    let mut t = FSETable::new(max_sym);
    let used = t.build_decoder(table_bytes_and_stream, max_log).map_err(|e| format!("{e}"))?;
    let stream = &table_bytes_and_stream[used..];
    let mut br = BitReaderReversed::new(stream);
    let mut skipped = 0;
    loop {
        let v = br.get_bits(1);
        skipped += 1;
        if v == 1 || skipped > 8 {
            break;
        }
    }
    if skipped > 8 {
        return Err("no end mark".into());
    }
    let mut out = Vec::with_capacity(n);
    if !interleaved {
        let mut d = FSEDecoder::new(&t);
        d.init_state(&mut br).map_err(|e| format!("{e}"))?;
        for i in 0..n {
            out.push(d.decode_symbol());
            if i + 1 < n {
                d.update_state(&mut br);
            }
        }
    } else {
        // as huff0's weight reader does: two states, alternate, final states flush
        let mut d1 = FSEDecoder::new(&t);
        let mut d2 = FSEDecoder::new(&t);
        d1.init_state(&mut br).map_err(|e| format!("{e}"))?;
        d2.init_state(&mut br).map_err(|e| format!("{e}"))?;
        loop {
            out.push(d1.decode_symbol());
            d1.update_state(&mut br);
            if br.bits_remaining() <= -1 {
                out.push(d2.decode_symbol());
                break;
            }
            out.push(d2.decode_symbol());
            d2.update_state(&mut br);
            if br.bits_remaining() <= -1 {
                out.push(d1.decode_symbol());
                break;
            }
            if out.len() > n + 4 {
                break;
            }
        }
    }
    Ok((out, br.bits_remaining(), used))
}

fn check_hist(h: &HistCase, ctx: &mut CaseCtx) -> CaseResult {
    let (data, alpha, max_log) = symbol_sequence(h);
    let max_sym = if h.which % 4 == 3 { 255 } else { alpha - 1 };
    let table = fse_encoder::build_table_from_data(data.iter().copied(), max_log, true);
    let log = table.acc_log();
    ensure!((5..=max_log).contains(&log), "fse_encoder_log", "accuracy log {log} outside 5..={max_log}");
    let probs = enc::probabilities(&table);
    let mut counts = [0usize; 256];
    for &s in &data {
        counts[s as usize] += 1;
    }
    let sum: i64 = probs.iter().map(|&p| if p == -1 { 1 } else { p as i64 }).sum();
    ensure!(sum == 1i64 << log, "fse_encoder_sum", "probabilities sum to {sum}, table size is {}; {:?}", 1i64 << log, &probs[..alpha as usize]);
    for s in 0..256usize {
        ensure!(!(counts[s] > 0 && probs[s] == 0), "fse_encoder_missing_symbol", "symbol {s} occurs {} times but has probability 0", counts[s]);
        ensure!(!(s >= alpha as usize && probs[s] != 0), "fse_encoder_symbol_beyond_alphabet", "symbol {s} beyond the alphabet has probability {}", probs[s]);
        ensure!(probs[s] >= -1, "fse_encoder_negative_probability", "symbol {s} has probability {}", probs[s]);
    }
    let distinct = counts.iter().filter(|&&c| c > 0).count();
    // description parses back (model and crate) to exactly the table the compressor used
    let desc = enc::write_table(&table);
    let (nc, used_m) = fse::read_ncount(&desc, max_log, max_sym as usize).map_err(|e| Failure::new("fse_written_table_invalid", format!("the table description the compressor wrote is not valid: {e}; probabilities {:?}", &probs[..alpha as usize])))?;
    ensure!(used_m == desc.len(), "fse_written_table_length", "description has {} bytes, the specification reads {used_m}", desc.len());
    let last = probs.iter().rposition(|&p| p != 0).unwrap();
    let want_probs: Vec<i16> = probs[..=last].iter().map(|&p| p as i16).collect();
    ensure!(nc.log == log && nc.probs == want_probs, "fse_written_table_differs", "description reads back as log {} {:?}, the compressor used log {log} {:?}", nc.log, nc.probs, want_probs);
    let want = fse::build_dtable(&nc);
    compare_encoder_states(&table, &want, "compressor table")?;
    let mut t = FSETable::new(max_sym);
    let used_c = t.build_decoder(&desc, max_log).map_err(|e| Failure::new("fse_written_table_rejected", format!("this crate's decoder rejects the description: {e}")))?;
    ensure!(used_c == desc.len(), "fse_written_table_length", "description has {} bytes, the decoder consumed {used_c}", desc.len());
    compare_tables(&t, &want, "decoder table from the compressor's description")?;
    // streams: single state
    let s1 = enc::encode_single(table.clone(), &data);
    let (got, rem, _) = decode_with_crate(&s1, max_sym, max_log, data.len(), false).map_err(|e| Failure::new("fse_stream_undecodable", e))?;
    ensure!(got == data && rem == 0, "fse_single_stream_roundtrip", "single-state stream of {} symbols decodes to {} symbols, {} bits left", data.len(), got.len(), rem);
    let (mgot, mrem) = fse::decode_stream(&want, log, &s1[desc.len()..], data.len()).map_err(|e| Failure::new("fse_stream_undecodable", e))?;
    ensure!(mgot == data && mrem == 0, "fse_single_stream_spec", "the specification decodes the single-state stream to {} symbols with {} bits left", mgot.len(), mrem);
    // two interleaved states (as used for Huffman weights): needs >= 4 symbols and, for the stream
    // end to be detectable, is only used by production when there are > 16 weights
    if data.len() >= 4 && distinct >= 2 {
        let s2 = enc::encode_interleaved(table.clone(), &data);
        let mgot = fse::decode_interleaved2_limit(&want, log, &s2[desc.len()..], data.len() + 8).map_err(|e| Failure::new("fse_stream_undecodable", e))?;
        ensure!(mgot == data, "fse_interleaved_stream_spec", "the specification decodes the interleaved stream of {} symbols to {} symbols (first difference at {})", data.len(), mgot.len(), mgot.iter().zip(data.iter()).take_while(|(a, b)| a == b).count());
        let (got, _rem, _) = decode_with_crate(&s2, max_sym, max_log, data.len(), true).map_err(|e| Failure::new("fse_stream_undecodable", e))?;
        ensure!(got == data, "fse_interleaved_stream_roundtrip", "interleaved stream of {} symbols decodes to {} symbols", data.len(), got.len());
        ctx.feat("enc:interleaved_stream");
    }
    ctx.feat(["enc:LL", "enc:OF", "enc:ML", "enc:huffman_weights"][(h.which % 4) as usize]);
    ctx.feat_if(distinct == 1, "enc:single_symbol");
    ctx.feat_if(distinct == 1 && data[0] == 0, "enc:only_code_0");
    ctx.feat_if(log == max_log, "enc:log_at_maximum");
    ctx.feat_if(h.shape >= 8, "enc:many_equally_frequent_beside_many_rare_codes");
    ctx.feat_if(data.len() > (1usize << max_log) && counts.iter().filter(|&&c| c == 1).count() >= 8, "enc:histogram_exceeds_table_with_8+_singletons");
    ctx.nontrivial = distinct >= 2;
    let mut key = vec![h.which % 4, log];
    for s in 0..alpha as usize {
        key.extend_from_slice(&(counts[s] as u32).to_le_bytes());
    }
    ctx.set_hash_bytes(&[&key]);
    if ctx.nontrivial && data.len() <= 12 {
        let tname = ["LL", "OF", "ML", "weights"][(h.which % 4) as usize];
        ctx.sample = Some(json!({"table": tname, "symbols": data, "log": log, "probabilities": &probs[..=last]}));
    }
    Ok(())
}

fn check_tables_in_frame(case: &crate::props::c16::Case, ctx: &mut CaseCtx) -> CaseResult {
    crate::props::c16::check(case, ctx)?;
    ctx.nontrivial = true;
    Ok(())
}

pub fn run(eng: &Engine) {
    eng.set_rule("(decoder) valid normalized distributions built constructively for accuracy logs 5..9 (support, less-than-one symbols, zero runs crossing the 3-repeat flag, shapes: all ones / one dominant / powers of two / all less-than-one), serialised by the model writer, parsed by FSETable::build_decoder and compared state by state (symbol, bits, baseline) with the table the specification defines; then the predefined table is built into the same table object and the description over it again (the decoder keeps one object per kind), incl. close relatives of the predefined distributions (proper prefix, spelled out, extended, two entries swapped); all distributions over <= 4 symbols in 6 slots at log 5 exhaustively; predefined LL/ML/OF tables on both sides vs the published tables; (encoder, production parameters max log 9/8/9/6 and zero-bit avoidance on) symbol sequences over LL/OF/ML/weight alphabets through build_table_from_data: probability sum, log range, support, description written by the compressor parses back (specification and decoder) to exactly the table used, encoder state table == decoding table, single-state and interleaved streams decode to the same symbols with 0 bits left; (compressor call sites) sequence lists with code histograms flat over 6..16 codes plus one rare code for offsets / literal lengths / match lengths, compressed by the real block compressor through a scripted matcher: both decoders restore the input and the strict walker accepts every table description under the limit of ITS table (LL 9, OF 8, ML 9); non-trivial = >= 3 symbols with a less-than-one probability or a zero run (decoder) / >= 2 distinct symbols (encoder); distinct by distribution / histogram hash");
    selftest::code_tables(eng);
    if let Err(f) = check_predefined(eng) {
        eng.report_violation("predefined_tables", &json!(null), &f);
        return;
    }
    let n1 = eng.tier.pick(300_000, 4_000_000);
    let n2 = eng.tier.pick(250_000, 3_000_000);
    eng.run_stage("decoder_distributions", n1, dist_strategy, check_dist);
    eng.run_stage("encoder_histograms", n2, hist_strategy, check_hist);
    // the compressor's own call sites (which limit goes with which table): sequence lists whose
    // code histograms are flat over many codes - the shape that reaches the largest accuracy logs -
    // handed to the real block compressor through a scripted matcher; the strict walker enforces
    // the per-table limits (LL 9, OF 8, ML 9) on every description in the emitted frame
    let n3 = eng.tier.pick(4_000, 80_000);
    eng.run_stage("compressor_tables_in_frames", n3, crate::props::c16::flat_codes_strategy, check_tables_in_frame);
    let fam = small_family();
    let cap = if eng.tier == Tier::Quick { 60_000 } else { fam.len() };
    let step = (fam.len() / cap).max(1);
    let items: Vec<&Vec<i16>> = fam.iter().step_by(step).collect();
    let domain = if step == 1 {
        "every distribution at accuracy log 5 with <= 4 present symbols in the first 6 symbol slots".to_string()
    } else {
        format!("every {step}-th of the {} distributions at accuracy log 5 with <= 4 present symbols in 6 slots (all in the thorough tier)", fam.len())
    };
    eng.run_enumerated("small_distributions", &domain, items.len() as u64, 512, |i, c| {
        let nc = NCount { log: 5, probs: items[i as usize].clone() };
        // canonical serialisation, then one with the zero runs cut into pieces
        let r = check_dist_nc(&nc, 0, c).and_then(|_| check_dist_nc_with(&nc, 0, i as u32 + 1, c));
        c.nontrivial = true;
        r
    });
    if step != 1 {
        if let Some(s) = eng.stages.lock().unwrap().last_mut() {
            s.exhaustive = false;
        }
    }
}

pub fn replay(eng: &Engine, stage: &str, case: &Value) -> CaseResult {
    match stage {
        "decoder_distributions" => eng.replay_value(stage, case, check_dist),
        "encoder_histograms" => eng.replay_value(stage, case, check_hist),
        "compressor_tables_in_frames" => eng.replay_value(stage, case, check_tables_in_frame),
        "small_distributions" => {
            let i = case["index"].as_u64().ok_or_else(|| Failure::new("machinery", "index missing"))? as usize;
            let thorough = case["tier"].as_str() == Some("thorough");
            let fam = small_family();
            let cap = if thorough { fam.len() } else { 60_000 };
            let step = (fam.len() / cap).max(1);
            let probs = fam.iter().step_by(step).nth(i).ok_or_else(|| Failure::new("machinery", "index out of range"))?;
            let mut ctx = CaseCtx::default();
            check_dist_nc(&NCount { log: 5, probs: probs.clone() }, 0, &mut ctx)
        }
        "predefined_tables" => check_predefined(eng),
        _ => Err(Failure::new("machinery", format!("unknown stage {stage}"))),
    }
}
