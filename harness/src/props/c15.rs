//! C15 Compressor output is structurally valid and never larger than raw framing.

use crate::engine::{CaseCtx, CaseResult, Engine, Failure, Tier};
use crate::gen::data::{data_strategy, BLOCK};
use crate::model::frame::{self, WalkOpts};
use crate::props::c01::hexhead;
use crate::props::c02::{self, Case, Chunking, Job};
use crate::{ensure, fail};
use proptest::prelude::*;
use serde_json::{json, Value};

const BLK: usize = BLOCK as usize;

pub fn size_bound(input_len: usize) -> usize {
    input_len + 6 + 3 * 1usize.max(input_len.div_ceil(BLK)) + 3 * (input_len > 0 && input_len % BLK == 0) as usize + 4
}

pub fn check_structure(input: &[u8], f: &[u8], fastest: bool, what: &str, ctx: &mut CaseCtx) -> Result<bool, Failure> {
    check_structure_for(input, f, fastest, what, ctx, BLK as u64, BLK)
}

/// `matcher_window`: what the match finder advertises; `space`: the block length it works in
pub fn check_structure_for(input: &[u8], f: &[u8], fastest: bool, what: &str, ctx: &mut CaseCtx, matcher_window: u64, space: usize) -> Result<bool, Failure> {
    let info = match frame::walk(f, &WalkOpts::default()) {
        Ok(i) => i,
        Err(e) => fail!("malformed_frame", "{what}: the strict walker rejects the frame: {e}; frame {}", hexhead(f)),
    };
    ensure!(info.frame_len == f.len(), "bytes_after_frame", "{what}: {} byte(s) follow the final block / checksum", f.len() - info.frame_len);
    ensure!(info.content == input, "walker_content", "{what}: the frame's content is not the input");
    let h = &info.header;
    ensure!(!h.single_segment && h.window_descriptor.is_some() && h.dict_id.is_none() && h.dict_id_bytes == 0 && h.fcs.is_none(), "header_fields", "{what}: unexpected header layout {h:?}");
    ensure!(h.checksum_flag && info.checksum.is_some(), "checksum_missing", "{what}: hash build but no content checksum in the frame");
    ensure!(h.window_size >= matcher_window, "window_too_small", "{what}: declared window {} is below the matcher's window of {matcher_window}", h.window_size);
    ensure!(info.max_offset <= h.window_size && !info.offset_beyond_window, "offset_beyond_window", "{what}: a match offset of {} exceeds the declared window {}", info.max_offset, h.window_size);
    let mut chose = false;
    let mut lasts = 0;
    for (i, b) in info.blocks.iter().enumerate() {
        let block_max = (BLK as u64).min(h.window_size) as usize;
        ensure!(b.stored <= block_max && b.regen <= block_max, "block_too_large", "{what}: block #{i} stores {} / regenerates {} bytes, Block_Maximum_Size is {block_max}", b.stored, b.regen);
        if b.last {
            lasts += 1;
            ensure!(i + 1 == info.blocks.len(), "last_block_not_final", "{what}: block #{i} carries the last-block flag but is not the final block");
        }
        if b.btype == 2 {
            // the compressor promises a raw fallback whenever compression does not shrink the block
            ensure!(b.stored < b.regen, "compressed_block_not_smaller", "{what}: compressed block #{i} stores {} bytes for {} bytes of data", b.stored, b.regen);
            ctx.feat(match b.regen - b.stored {
                0..=16 => "margin:compressed_by_<=16B",
                17..=256 => "margin:compressed_by_<=256B",
                _ => "margin:compressed_by_more",
            });
        }
        if fastest && b.regen > 0 && b.btype != 1 {
            chose = true;
            ctx.feat(if b.btype == 0 { "choice:raw" } else { "choice:compressed" });
        }
        ctx.feat_if(b.btype == 1, "choice:rle");
    }
    ensure!(lasts == 1, "last_block_count", "{what}: {lasts} blocks carry the last-block flag");
    let bound = if space == BLK { size_bound(input.len()) } else { input.len() + 6 + 3 * 1usize.max(input.len().div_ceil(space)) + 3 * (input.len() > 0 && input.len() % space == 0) as usize + 4 };
    ensure!(f.len() <= bound, "frame_larger_than_raw_framing", "{what}: frame has {} bytes for {} bytes of input (bound {bound})", f.len(), input.len());
    ctx.feat_if(f.len() + 8 >= bound, "size:within_8B_of_bound");
    Ok(chose)
}

pub fn check(case: &Case, ctx: &mut CaseCtx) -> CaseResult {
    let results = c02::compress_history(case);
    let mut nontrivial = false;
    let mut parts: Vec<&[u8]> = vec![];
    for (i, (input, f)) in results.iter().enumerate() {
        let j = &case.jobs[i.min(case.jobs.len() - 1)];
        let what = format!("frame #{i} ({}, {} bytes, level {})", j.data.kind_name(), input.len(), if j.level % 2 == 0 { "Uncompressed" } else { "Fastest" });
        if check_structure(input, f, j.level % 2 == 1, &what, ctx)? {
            nontrivial = true;
        }
        ctx.feat(j.data.kind_name());
        ctx.feat_if(input.len() > 0 && input.len() % BLK == 0, "input:exact_block_multiple");
        parts.push(f);
    }
    ctx.weight = results.len() as u64;
    ctx.nontrivial = nontrivial;
    ctx.set_hash_bytes(&parts);
    if nontrivial && results.len() == 1 && results[0].1.len() < 100 {
        ctx.sample = Some(json!({"input_len": results[0].0.len(), "frame_hex": hexhead(&results[0].1), "bound": size_bound(results[0].0.len())}));
    }
    Ok(())
}

/// The built-in match finder in other configurations than the one `FrameCompressor::new` uses
/// (slice 128 KiB x 1): the same structural rules have to hold for whatever window it advertises.
#[derive(Clone, Debug, serde::Serialize, serde::Deserialize)]
pub struct DriverCase {
    pub data: crate::gen::data::DataSpec,
    pub slice: u32,
    pub slices: u8,
}

pub fn check_driver(case: &DriverCase, ctx: &mut CaseCtx) -> CaseResult {
    use ruzstd::encoding::{CompressionLevel, FrameCompressor, MatchGeneratorDriver, Matcher};
    let input = case.data.render();
    let slice = (case.slice as usize).clamp(16, BLK);
    let slices = case.slices.clamp(1, 40) as usize;
    let driver = MatchGeneratorDriver::verif_new(slice, slices);
    let window = driver.window_size();
    let mut comp: FrameCompressor<&[u8], Vec<u8>, MatchGeneratorDriver> = FrameCompressor::new_with_matcher(driver, CompressionLevel::Fastest);
    comp.set_source(&input[..]);
    comp.set_drain(Vec::new());
    comp.compress();
    let f = comp.take_drain().unwrap();
    let what = format!("built-in match finder with {slices} slice(s) of {slice} bytes (window {window}), {} of {} bytes", case.data.kind_name(), input.len());
    crate::props::c02::verify_frame(&input, &f, &what)?;
    let chose = check_structure_for(&input, &f, true, &what, ctx, window, slice)?;
    ctx.feat_if(!window.is_power_of_two(), "driver:window_not_a_power_of_two");
    ctx.feat_if(window < 1024, "driver:window_below_1KiB");
    ctx.feat_if(slices > 1, "driver:window_spans_several_blocks");
    ctx.nontrivial = chose && slices > 1;
    ctx.set_hash_bytes(&[&f]);
    Ok(())
}

fn driver_strategy() -> impl Strategy<Value = DriverCase> {
    (
        crate::gen::data::data_strategy(150_000),
        prop_oneof![2 => 16u32..=300, 3 => 300u32..=9000, 1 => Just(1024u32), 1 => Just(65_536u32), 1 => Just(BLOCK), 1 => 9000u32..=BLOCK],
        prop_oneof![2 => Just(1u8), 4 => 2u8..=9, 1 => 10u8..=40],
    )
        .prop_map(|(data, slice, slices)| DriverCase { data, slice, slices })
}

fn case_strategy(tier: Tier) -> impl Strategy<Value = Case> {
    let max_len = if tier == Tier::Quick { 1u32 << 20 } else { 8u32 << 20 };
    // extra weight on incompressible / nearly incompressible inputs and exact multiples of the block size
    let hard = (prop_oneof![Just(4u8), Just(5u8), Just(6u8), Just(2u8)], 1u32..=6, -1i32..=1, any::<u32>(), any::<u16>(), any::<u16>(), prop::bool::weighted(0.5)).prop_map(move |(kind, k, d, seed, a, b, exact)| {
        let len = if kind == 6 { BLOCK + 1025 + (seed % 90_000) } else if exact { ((k * BLOCK) as i64 + d as i64).max(0) as u32 } else { seed % (max_len.min(700_000)) };
        Job { data: crate::gen::data::DataSpec { kind, len: len.min(max_len), seed, a, b }, level: 1, chunking: Chunking::Whole, abort_before: 0, abort_arg: 0, short_drain: 0 }
    });
    prop_oneof![
        3 => c02::case_strategy(tier),
        2 => hard.prop_map(|j| Case { jobs: vec![j], oneshot: true, stream_cuts: vec![] }),
        1 => prop::collection::vec(c02::job_strategy(300_000), 2..=4).prop_map(|jobs| Case { jobs, oneshot: false, stream_cuts: vec![] }),
    ]
}

pub fn run(eng: &Engine) {
    eng.set_rule("compressor output (both levels, reused compressor, inputs weighted to incompressible / nearly incompressible data, the boundary-seeking family and exact multiples of 128 KiB) parsed by the independent strict frame walker: exactly one frame, header fields consistent, window >= every offset and >= 128 KiB, every block <= 128 KiB stored and regenerated, one last block and it is final, offsets within data produced, sections self-consistent, bit streams end exactly, checksum correct, nothing after; size <= input + 6 + 3*max(1,ceil(n/128K)) + 3*[n positive multiple of 128K] + 4; compressed blocks strictly smaller than their data; non-trivial = >= 1 block where the Fastest level had to choose between raw and compressed; distinct by frame hash; evaluations count frames. Second stage: the built-in match finder configured (hook `MatchGeneratorDriver::verif_new`) with slices of 16 B..128 KiB x 1..40 slices, i.e. windows that are small, span several blocks or are no power of two: same walker rules with the declared window >= the window the match finder advertises and Block_Maximum_Size = min(window, 128 KiB), plus the round trip through both decoders");
    let _ = data_strategy;
    let tier = eng.tier;
    let n = eng.tier.pick(20_000, 300_000);
    eng.run_stage("frames", n, || case_strategy(tier), check);
    let nd = eng.tier.pick(15_000, 200_000);
    eng.run_stage("other_matcher_windows", nd, driver_strategy, check_driver);
}

pub fn replay(eng: &Engine, stage: &str, case: &Value) -> CaseResult {
    match stage {
        "frames" => eng.replay_value(stage, case, check),
        "other_matcher_windows" => eng.replay_value(stage, case, check_driver),
        _ => Err(Failure::new("machinery", format!("unknown stage {stage}"))),
    }
}
