//! C18 Behaviour is the same with and without the std I/O layer and the hash feature.
//! Four separately built driver binaries (see /verif/c18, built by scripts/extra-C18.sh) run the same
//! operations over a generated corpus; their outputs are compared line by line.

use crate::engine::{hash_bytes, CaseCtx, CaseResult, Engine, Failure, Tier, VERIF_ROOT};
use crate::gen::data::data_strategy;
use crate::gen::frames::frame_case_custom;
use crate::model::synth::Rng;
use crate::engine::hexbytes;
use proptest::strategy::{Strategy, ValueTree};
use proptest::test_runner::{Config, RngAlgorithm, RngSeed, TestRunner};
use serde::{Deserialize, Serialize};
use serde_json::{json, Value};
use std::collections::BTreeMap;
use std::path::{Path, PathBuf};

const BUILDS: [&str; 4] = ["std_hash", "std", "hash", "none"];

#[derive(Clone, Debug, Serialize, Deserialize)]
pub struct Item {
    pub name: String,
    /// "in" = input to compress, "fr" = frame(s) to decode
    pub kind: String,
    #[serde(with = "hexbytes")]
    pub bytes: Vec<u8>,
    pub expect_len: usize,
    pub pattern: Vec<usize>,
    pub what: String,
}

fn write_corpus(dir: &Path, items: &[Item]) -> std::io::Result<()> {
    let _ = std::fs::remove_dir_all(dir);
    std::fs::create_dir_all(dir)?;
    let mut manifest = String::new();
    for it in items {
        std::fs::write(dir.join(&it.name), &it.bytes)?;
        let pat = if it.pattern.is_empty() { "-".to_string() } else { it.pattern.iter().map(|p| p.to_string()).collect::<Vec<_>>().join(",") };
        manifest.push_str(&format!("{} {} {} {}\n", it.name, it.kind, it.expect_len, pat));
    }
    std::fs::write(dir.join("manifest.txt"), manifest)
}

type Lines = BTreeMap<(String, String), (String, String)>;

/// Runs one driver build over a corpus directory with a wall-clock limit. Err("hang") on timeout.
fn run_build_limited(build: &str, dir: &Path, limit_s: u64) -> Result<Lines, Failure> {
    use std::io::Read;
    let bin = PathBuf::from(VERIF_ROOT).join(format!("target/c18-{build}/release/c18driver"));
    let mut child = std::process::Command::new(&bin)
        .arg(dir)
        .stdout(std::process::Stdio::piped())
        .stderr(std::process::Stdio::null())
        .spawn()
        .map_err(|e| Failure::new("machinery", format!("cannot run {}: {e}", bin.display())))?;
    let mut stdout = child.stdout.take().unwrap();
    let reader = std::thread::spawn(move || {
        let mut s = String::new();
        let _ = stdout.read_to_string(&mut s);
        s
    });
    let t0 = std::time::Instant::now();
    let status = loop {
        match child.try_wait() {
            Ok(Some(st)) => break Some(st),
            Ok(None) => {
                if t0.elapsed().as_secs() > limit_s {
                    let _ = child.kill();
                    let _ = child.wait();
                    break None;
                }
                std::thread::sleep(std::time::Duration::from_millis(20));
            }
            Err(e) => return Err(Failure::new("machinery", format!("wait: {e}"))),
        }
    };
    let text = reader.join().unwrap_or_default();
    let Some(status) = status else {
        return Err(Failure::new("driver_hang", format!("driver build `{build}` did not finish within {limit_s} s")));
    };
    if !status.success() {
        return Err(Failure::new("driver_died", format!("driver build `{build}` exited with {:?}", status.code())));
    }
    let mut m = Lines::new();
    for l in text.lines() {
        let mut it = l.splitn(4, ' ');
        let (a, b, c, d) = (it.next().unwrap_or(""), it.next().unwrap_or(""), it.next().unwrap_or(""), it.next().unwrap_or(""));
        m.insert((a.to_string(), b.to_string()), (c.to_string(), d.to_string()));
    }
    Ok(m)
}

fn run_build(build: &str, dir: &Path, items: usize) -> Result<Lines, Failure> {
    run_build_limited(build, dir, 60 + items as u64 / 5)
}

fn field<'a>(rest: &'a str, key: &str) -> Option<&'a str> {
    rest.split_whitespace().find_map(|t| t.strip_prefix(key).and_then(|v| v.strip_prefix('=')))
}

/// compares the four outputs; returns the first difference as (item, op, description)
fn compare(outs: &[Lines; 4]) -> Option<(String, String, String)> {
    let keys: Vec<&(String, String)> = outs[0].keys().collect();
    for k in keys {
        let v: Vec<Option<&(String, String)>> = outs.iter().map(|o| o.get(k)).collect();
        if v.iter().any(|x| x.is_none()) {
            return Some((k.0.clone(), k.1.clone(), "line missing in some build".into()));
        }
        let v: Vec<&(String, String)> = v.into_iter().map(|x| x.unwrap()).collect();
        // std vs no_std with the same hash setting: identical lines
        for (a, b) in [(0usize, 2usize), (1, 3)] {
            if v[a] != v[b] {
                return Some((k.0.clone(), k.1.clone(), format!("std vs no_std differ ({} vs {}): `{} {}` vs `{} {}`", BUILDS[a], BUILDS[b], v[a].0, v[a].1, v[b].0, v[b].1)));
            }
        }
        // hash vs no hash: same class; decoded data identical; compressor output identical after
        // removing the checksum flag and trailer; hash builds carry a checksum, no-hash builds do not
        let (h, n) = (v[0], v[1]);
        if h.0 != n.0 {
            return Some((k.0.clone(), k.1.clone(), format!("hash vs no-hash outcome class differs: `{} {}` vs `{} {}`", h.0, h.1, n.0, n.1)));
        }
        if h.0 == "ok" {
            if k.1.starts_with("compress") {
                if field(&h.1, "norm") != field(&n.1, "norm") {
                    return Some((k.0.clone(), k.1.clone(), format!("compressor output differs beyond the checksum flag and trailer: `{}` vs `{}`", h.1, n.1)));
                }
                if field(&h.1, "checksum") != Some("true") || field(&n.1, "checksum") != Some("false") {
                    return Some((k.0.clone(), k.1.clone(), format!("checksum presence: hash build `{}`, no-hash build `{}`", h.1, n.1)));
                }
                // "the four checksum bytes": what the hash build appends is the checksum its own
                // decoder computes over the decoded frame (driver field `trailer`), for every source
                if let Some(t) = field(&h.1, "trailer") {
                    if t != "ok" || field(&n.1, "trailer") != Some("na") {
                        return Some((k.0.clone(), k.1.clone(), format!("the four bytes the hash build appends are not the checksum of the content (trailer={t}): hash build `{}`, no-hash build `{}`", h.1, n.1)));
                    }
                }
                let (lh, ln) = (field(&h.1, "len").and_then(|x| x.parse::<usize>().ok()), field(&n.1, "len").and_then(|x| x.parse::<usize>().ok()));
                if lh != ln.map(|x| x + 4) {
                    return Some((k.0.clone(), k.1.clone(), format!("hash build frame is not exactly 4 bytes longer: {lh:?} vs {ln:?}")));
                }
            } else if h.1 != n.1 {
                return Some((k.0.clone(), k.1.clone(), format!("decoded data differs between hash and no-hash builds: `{}` vs `{}`", h.1, n.1)));
            }
        } else if h.0 == "err" && h.1 != n.1 {
            return Some((k.0.clone(), k.1.clone(), format!("error class differs between hash and no-hash builds: `{}` vs `{}`", h.1, n.1)));
        }
    }
    None
}

fn patterns(r: &mut Rng) -> Vec<usize> {
    match r.below(6) {
        0 => vec![],
        1 => vec![1],
        2 => vec![1 + r.below(16) as usize, 1 + r.below(5000) as usize],
        3 => vec![131_072, 1],
        4 => vec![1 + r.below(300) as usize, 1 + r.below(300) as usize, 70_000],
        _ => vec![4096],
    }
}

fn generate(eng: &Engine, n: usize) -> Vec<Item> {
    let mut runner = TestRunner::new(Config { rng_algorithm: RngAlgorithm::ChaCha, rng_seed: RngSeed::Fixed(eng.seed ^ 0xC18), failure_persistence: None, ..Config::default() });
    let max_len = if eng.tier == Tier::Quick { 300_000 } else { 2_000_000 };
    let ds = data_strategy(max_len);
    let fs = frame_case_custom(max_len.min(400_000), 20, 10, 300, false);
    let mut r = Rng(eng.seed ^ 0x18);
    let mut items = vec![];
    for i in 0..n {
        match i % 5 {
            0 | 1 => {
                let d = ds.new_tree(&mut runner).unwrap().current();
                let bytes = d.render();
                items.push(Item { name: format!("in-{i:05}.bin"), kind: "in".into(), expect_len: bytes.len(), bytes, pattern: patterns(&mut r), what: format!("input {}", d.kind_name()) });
            }
            _ => {
                let fc = fs.new_tree(&mut runner).unwrap().current();
                let Ok(b) = fc.build() else { continue };
                let (mut bytes, mut expect, what) = (b.frame.clone(), b.content.len(), match i % 5 {
                    2 => "valid frame",
                    3 => "two frames + skippable",
                    _ => "damaged frame",
                });
                if i % 5 == 3 {
                    bytes.extend_from_slice(&[0x5A, 0x2A, 0x4D, 0x18, 2, 0, 0, 0, 9, 9]);
                    bytes.extend_from_slice(&b.frame);
                    expect *= 2;
                }
                if i % 5 == 4 {
                    if r.below(2) == 0 && bytes.len() > 8 {
                        let cut = 5 + r.below(bytes.len() as u64 - 5) as usize;
                        bytes.truncate(cut);
                    } else if bytes.len() > 8 {
                        let at = 4 + r.below(bytes.len() as u64 - 4) as usize;
                        bytes[at] ^= 1 << r.below(8);
                    }
                }
                items.push(Item { name: format!("fr-{i:05}.bin"), kind: "fr".into(), bytes, expect_len: expect, pattern: patterns(&mut r), what: what.into() });
            }
        }
    }
    items
}

fn boundary(it: &Item, op: &str) -> bool {
    // exercises a hand-written no_std routine on a boundary
    !it.pattern.is_empty() || op.contains("take") || op.contains("read_exact") || op.contains("slice_full")
}

fn evaluate(eng: &Engine, items: &[Item], dir: &Path, stage: &str) -> Result<(u64, u64), Failure> {
    write_corpus(dir, items).map_err(|e| Failure::new("machinery", format!("cannot write corpus: {e}")))?;
    let mut outs: Vec<Lines> = vec![];
    for b in BUILDS {
        match run_build(b, dir, items.len()) {
            Ok(l) => outs.push(l),
            Err(f) if f.kind == "driver_hang" || f.kind == "driver_died" => {
                // localise: one item at a time, short limit
                let single = dir.with_file_name("single");
                for it in items {
                    let _ = write_corpus(&single, std::slice::from_ref(it));
                    if let Err(f2) = run_build_limited(b, &single, 30) {
                        if f2.kind == "machinery" {
                            return Err(f2);
                        }
                        let f3 = Failure::new(&f2.kind, format!("{} ({}): {}; the other builds are unaffected or differ", it.name, it.what, f2.msg));
                        eng.report_violation(stage, &json!({"item": it, "op": "*"}), &f3);
                        return Err(f3);
                    }
                }
                return Err(Failure::new("machinery", format!("{}; not reproducible per item", f.msg)));
            }
            Err(f) => return Err(f),
        }
    }
    let outs: [Lines; 4] = [outs.remove(0), outs.remove(0), outs.remove(0), outs.remove(0)];
    if let Some((item, op, why)) = compare(&outs) {
        let it = items.iter().find(|i| i.name == item).cloned();
        let f = Failure::new("builds_differ", format!("{item} ({}) {op}: {why}", it.as_ref().map(|i| i.what.as_str()).unwrap_or("?")));
        eng.report_violation(stage, &json!({"item": it, "op": op}), &f);
        return Err(f);
    }
    let mut evals = 0u64;
    let mut nontrivial = std::collections::HashSet::new();
    for ((item, op), (class, rest)) in outs[0].iter() {
        evals += 1;
        if let Some(it) = items.iter().find(|i| &i.name == item) {
            if boundary(it, op) {
                nontrivial.insert(hash_bytes(format!("{}{}{:?}", hash_bytes(&it.bytes), op, it.pattern).as_bytes()));
            }
        }
        let mut feats = eng.features.lock().unwrap();
        *feats.entry(format!("op:{}", op.split('(').next().unwrap_or(op))).or_insert(0) += 1;
        *feats.entry(format!("outcome:{class}")).or_insert(0) += 1;
        let _ = rest;
    }
    for h in &nontrivial {
        eng.nontrivial_hashes.lock().unwrap().insert(*h);
    }
    Ok((evals, nontrivial.len() as u64))
}

pub fn run(eng: &Engine) {
    eng.set_rule("a corpus generated for the run (inputs from the data generator; frames from the three frame sources incl. multi-frame with skippable frames, truncated and bit-flipped ones) is processed by four driver binaries built from /repo with --no-default-features + {std,hash | std | hash | none}: compression at both levels through fragmenting Read sources, Read::take with the limit inside the data, Vec and &mut [u8] sinks (incl. a slice that fills up); decoding through decode_all, decode_blocks + collect_to_writer into a slow sink, StreamingDecoder read loops, read_exact (incl. EOF inside read_exact) and take + read_to_end; oracle: std vs no_std lines identical (same hash setting); hash vs no-hash: same outcome class, identical decoded data, compressor output identical after removing exactly the checksum flag bit and the 4 trailing bytes; non-trivial = the operation exercises a hand-written no_std routine on a boundary (fragmented reads, take limit mid-buffer, EOF inside read_exact, write_all into a full slice); distinct by (item, op) hash; evaluations = (item, operation) pairs");
    eng.assume("the four binaries are built by scripts/extra-C18.sh from /repo's working tree before this runs");
    let n = eng.tier.pick(1_500, 20_000) as usize;
    let items = generate(eng, n);
    let dir = PathBuf::from(VERIF_ROOT).join("target/c18/corpus");
    let t0 = std::time::Instant::now();
    match evaluate(eng, &items, &dir, "four_builds") {
        Ok((evals, nt)) => {
            eprintln!("[C18] stage four_builds                  items={} evaluations={} nontrivial={} {:.1}s", items.len(), evals, nt, t0.elapsed().as_secs_f64());
            eng.stages.lock().unwrap().push(crate::engine::StageStats { name: "four_builds".into(), evaluations: evals, nontrivial: nt, ..Default::default() });
            let mut samples = eng.samples.lock().unwrap();
            for it in items.iter().filter(|i| !i.pattern.is_empty()).take(3) {
                samples.push(json!({"item": it.name, "kind": it.kind, "what": it.what, "bytes": it.bytes.len(), "read_pattern": it.pattern}));
            }
        }
        Err(f) if f.kind == "machinery" => eng.machinery_broken(&f.msg),
        Err(_) => {}
    }
}

pub fn replay(eng: &Engine, _stage: &str, case: &Value) -> CaseResult {
    let it: Item = serde_json::from_value(case["item"].clone()).map_err(|e| Failure::new("machinery", format!("{e}")))?;
    let dir = PathBuf::from(VERIF_ROOT).join("target/c18/replay");
    write_corpus(&dir, &[it.clone()]).map_err(|e| Failure::new("machinery", format!("{e}")))?;
    let mut outs: Vec<Lines> = vec![];
    for b in BUILDS {
        outs.push(run_build_limited(b, &dir, 60)?);
    }
    let outs: [Lines; 4] = [outs.remove(0), outs.remove(0), outs.remove(0), outs.remove(0)];
    let _ = (eng, CaseCtx::default());
    match compare(&outs) {
        Some((item, op, why)) => Err(Failure::new("builds_differ", format!("{item} {op}: {why}"))),
        None => Ok(()),
    }
}
