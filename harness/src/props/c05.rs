//! C05 Decoder memory is bounded by the window limit plus one block, for any input.

use crate::alloc::Meter;
use crate::engine::{CaseCtx, CaseResult, Engine, Failure};
use crate::gen::frames::{frame_case_strategy, FrameCase, Skip};
use crate::model::synth::*;
use crate::props::c01::{first_diff, hexhead};
use crate::{ensure, refz};
use proptest::prelude::*;
use ruzstd::decoding::{BlockDecodingStrategy, FrameDecoder, StreamingDecoder};
use serde::{Deserialize, Serialize};
use serde_json::{json, Value};
use std::io::Read;

const BLOCK: usize = 128 * 1024;

#[derive(Clone, Debug, Serialize, Deserialize)]
pub enum Drive {
    /// decode_blocks with strategy 0 All / 1 UptoBlocks(n) / 2 UptoBytes(n); collect after each call?
    Blocks { strat: u8, n: u32, drain: bool },
    Streaming { read: u32 },
    DecodeAll { spare: u32 },
    FromTo { chunk: u32, target: u32 },
    /// decode_all into a target that holds only keep/65536 of the content: the call has to give up
    /// when the target is full - not decode (and hold) the rest of the frame first
    DecodeAllUndersized { keep: u16 },
}

#[derive(Clone, Debug, Serialize, Deserialize)]
pub struct OverLong {
    /// regenerated size the block aims at
    pub target: u32,
    pub lit_len: u16,
    pub via_literals: bool,
    pub lit_mode: u8,
    pub offset: u8,
    pub modes: [u8; 3],
    pub window_desc: u8,
    pub prefix: u8,
    pub suffix: bool,
    pub max_ml: u32,
    /// literals of the block that no sequence consumes (appended after the last match)
    #[serde(default)]
    pub trailing: u32,
    /// 0: the block is a Compressed block (fields above); 1: an RLE block and 2: a Raw block whose
    /// Block_Size field says `target` (up to the field's 2^21 - 1)
    #[serde(default)]
    pub plain: u8,
}

#[derive(Clone, Debug, Serialize, Deserialize)]
pub enum Src {
    Valid(FrameCase),
    OverLong(OverLong),
}

#[derive(Clone, Debug, Serialize, Deserialize)]
pub struct Case {
    pub src: Src,
    pub drive: Drive,
    /// 0: new decoder; k > 0: the decoder has first decoded an 11-byte frame that declares a window
    /// of 2^(19+k) bytes (1..=16 MiB) - the bounds are about the frame being decoded, not about the
    /// largest frame the decoder has ever seen
    #[serde(default)]
    pub warm: u8,
}

pub fn overlong_spec(o: &OverLong) -> FrameSpec {
    let mut blocks = vec![];
    match o.prefix % 3 {
        1 => blocks.push(BlockSpec::Raw { data: (0..16u8).collect() }),
        2 => blocks.push(BlockSpec::Rle { byte: 7, len: 5000 }),
        _ => {}
    }
    let target = o.target as usize;
    if o.plain % 3 != 0 {
        let n = target.min((1 << 21) - 1);
        blocks.push(if o.plain % 3 == 1 { BlockSpec::Rle { byte: o.lit_mode, len: n as u32 } } else { BlockSpec::Raw { data: vec![0x63; n] } });
        if o.suffix {
            blocks.push(BlockSpec::Raw { data: vec![1, 2, 3] });
        }
        return FrameSpec { single_segment: false, window_desc: o.window_desc, fcs_bytes: 0, checksum: false, dict_id_bytes: 0, zero_dict_id: false, blocks };
    }
    let comp = if o.via_literals {
        CompSpec {
            literals: vec![0x61; target.min((1 << 20) - 1)],
            lit_mode: if o.lit_mode % 2 == 0 { 1 } else { 0 },
            lit_fmt: 3,
            huf_shape: 0,
            huf_fse: false,
            seqs: vec![],
            count_fmt: 0,
            modes: [0; 3],
            tables: [(6, 1), (6, 2), (6, 3)],
        }
    } else {
        let lit_len = (o.lit_len as usize).clamp(1, target.saturating_sub(3).max(1));
        // literals nobody references: they count towards the regenerated size like everything else
        let trailing = (o.trailing as usize).min(128 * 1024 - lit_len.min(128 * 1024)).min(target.saturating_sub(lit_len + 3));
        let mut left = target.saturating_sub(lit_len + trailing);
        let max_ml = (o.max_ml as usize).clamp(3, 131_074);
        let mut seqs = vec![];
        let mut first = true;
        while left >= 3 && seqs.len() < 2000 {
            let mut ml = left.min(max_ml);
            if left - ml > 0 && left - ml < 3 {
                ml -= 3;
            }
            seqs.push(SeqSpec {
                ll: if first { lit_len as u32 } else { 0 },
                ml: ml as u32,
                off: OffSpec::Abs(o.offset.max(1) as u32),
            });
            first = false;
            left -= ml;
        }
        CompSpec {
            literals: if trailing > 0 { vec![0x62; lit_len + trailing] } else { (0..lit_len).map(|i| (i * 7) as u8).collect() },
            lit_mode: if trailing > 0 { 1 } else { 0 },
            lit_fmt: 0,
            huf_shape: 0,
            huf_fse: false,
            seqs,
            count_fmt: 0,
            modes: o.modes,
            tables: [(6, 1), (6, 2), (6, 3)],
        }
    };
    blocks.push(BlockSpec::Comp(comp));
    if o.suffix {
        blocks.push(BlockSpec::Raw { data: vec![1, 2, 3] });
    }
    FrameSpec {
        single_segment: false,
        window_desc: o.window_desc,
        fcs_bytes: 0,
        checksum: false,
        dict_id_bytes: 0, zero_dict_id: false,
        blocks,
    }
}

pub fn overlong_strategy() -> impl Strategy<Value = OverLong> {
    let target = prop_oneof![
        4 => (-3i32..=3).prop_map(|d| (BLOCK as i32 + d) as u32),
        2 => 65_537u32..=131_072,
        2 => 131_073u32..=400_000,
        1 => Just(2 * BLOCK as u32),
        1 => Just(10 * BLOCK as u32),
        1 => 1_000_000u32..=200_000_000,
    ];
    (
        (target, 1u16..=40, prop::bool::weighted(0.2), any::<u8>(), 1u8..=8),
        ([0u8..=2, 0u8..=2, 0u8..=2], (0u8..=13, 0u8..=7), 0u8..=2, any::<bool>(), prop_oneof![Just(131_074u32), Just(65_539u32), 3u32..=131_074],
            prop_oneof![3 => Just(0u32), 2 => 1u32..=131_072, 1 => Just(131_072u32), 1 => 60_000u32..=131_072],
            prop_oneof![6 => Just(0u8), 2 => Just(1u8), 1 => Just(2u8)]),
    )
        .prop_map(|((target, lit_len, via_literals, lit_mode, offset), (modes, (e, m), prefix, suffix, max_ml, trailing, plain))| OverLong {
            target,
            lit_len,
            via_literals,
            lit_mode,
            offset,
            modes,
            window_desc: (e << 3) | m,
            prefix,
            suffix,
            max_ml,
            trailing,
            plain,
        })
}

fn drive_strategy() -> impl Strategy<Value = Drive> {
    let n = || prop_oneof![Just(0u32), Just(1u32), 1u32..=5, 1u32..=100_000, Just(1 << 20)];
    prop_oneof![
        4 => (0u8..=2, n(), any::<bool>()).prop_map(|(strat, n, drain)| Drive::Blocks { strat, n, drain }),
        2 => prop_oneof![1u32..=64, 1u32..=70_000, Just(1u32 << 20)].prop_map(|read| Drive::Streaming { read }),
        1 => (0u32..=1000).prop_map(|spare| Drive::DecodeAll { spare }),
        1 => prop_oneof![Just(0u16), any::<u16>()].prop_map(|keep| Drive::DecodeAllUndersized { keep }),
        2 => (prop_oneof![1u32..=64, 1000u32..=300_000], prop_oneof![1u32..=64, 1000u32..=300_000]).prop_map(|(chunk, target)| Drive::FromTo { chunk, target }),
    ]
}

fn case_strategy(tier: crate::engine::Tier) -> impl Strategy<Value = Case> {
    let src = prop_oneof![
        1 => frame_case_strategy(tier).prop_map(Src::Valid),
        1 => overlong_strategy().prop_map(Src::OverLong),
    ];
    (src, drive_strategy(), prop_oneof![3 => Just(0u8), 2 => 1u8..=5]).prop_map(|(src, drive, warm)| Case { src, drive, warm })
}

/// Incremental comparison of delivered bytes with the expected content (nothing is accumulated, so
/// the harness's own buffers do not count into the measured heap).
struct Sinker<'a> {
    expect: &'a [u8],
    pos: usize,
    ok: bool,
}
impl Sinker<'_> {
    fn take(&mut self, b: &[u8]) {
        if self.pos + b.len() > self.expect.len() || self.expect[self.pos..self.pos + b.len()] != *b {
            self.ok = false;
        }
        self.pos += b.len();
    }
}

struct Observed {
    result: Result<(), String>,
    /// largest growth of held data over one decode call minus what the call asked for
    max_excess: i64,
    /// largest amount retained after a drain of an unfinished frame
    max_retained: usize,
    max_requested: usize,
    delivered: usize,
    delivered_ok: bool,
    max_held_streaming: usize,
}

fn drive(frame: &[u8], expect: &[u8], window: u64, nblocks: usize, d: &Drive, warm: u8) -> Observed {
    let mut obs = Observed {
        result: Ok(()),
        max_excess: 0,
        max_retained: 0,
        max_requested: 0,
        delivered: 0,
        delivered_ok: true,
        max_held_streaming: 0,
    };
    let mut sink = Sinker { expect, pos: 0, ok: true };
    let mut dec = FrameDecoder::new();
    if window > ruzstd::decoding::DEFAULT_MAX_WINDOW_SIZE {
        dec.set_max_window_size(window);
    }
    if warm > 0 {
        // magic, descriptor 0, window descriptor (exponent 9 + warm), one raw last block of one byte
        let f = [0x28, 0xB5, 0x2F, 0xFD, 0x00, (9 + warm.min(5)) << 3, 0x09, 0x00, 0x00, 0x41];
        let mut out = [0u8; 4];
        if !matches!(dec.decode_all(&f, &mut out), Ok(1)) {
            obs.result = Err("the warm-up frame was not decoded".into());
            return obs;
        }
    }
    let res: Result<(), String> = (|| {
        match d {
            Drive::Blocks { strat, n, drain } => {
                let mut src = frame;
                dec.reset(&mut src).map_err(|e| format!("init: {e}"))?;
                while !dec.is_finished() {
                    let before = dec.verif_buffer_len();
                    let (st, requested) = match strat % 3 {
                        0 => (BlockDecodingStrategy::All, nblocks * BLOCK),
                        1 => (BlockDecodingStrategy::UptoBlocks(*n as usize), (*n as usize).max(1) * BLOCK),
                        _ => (BlockDecodingStrategy::UptoBytes(*n as usize), *n as usize),
                    };
                    obs.max_requested = obs.max_requested.max(requested);
                    let r = dec.decode_blocks(&mut src, st);
                    let after = dec.verif_buffer_len();
                    obs.max_excess = obs.max_excess.max(after as i64 - before as i64 - requested as i64);
                    r.map_err(|e| format!("decode_blocks: {e}"))?;
                    if *drain || dec.is_finished() {
                        if let Some(v) = dec.collect() {
                            sink.take(&v);
                        }
                        if !dec.is_finished() {
                            obs.max_retained = obs.max_retained.max(dec.verif_buffer_len());
                        }
                    }
                }
                if let Some(v) = dec.collect() {
                    sink.take(&v);
                }
                Ok(())
            }
            Drive::Streaming { read } => {
                let mut sd = StreamingDecoder::new_with_decoder(frame, &mut dec).map_err(|e| format!("init: {e}"))?;
                let mut buf = vec![0u8; *read as usize];
                obs.max_requested = *read as usize;
                loop {
                    let r = sd.read(&mut buf);
                    let after = sd.decoder.verif_buffer_len();
                    // a read delivers n bytes, so the amount held just before delivery was after + n;
                    // the streaming reader must hold window + read size before it can deliver, so the
                    // bound here is absolute: window + read size + one block
                    let n = *r.as_ref().unwrap_or(&0);
                    obs.max_held_streaming = obs.max_held_streaming.max(after + n);
                    let n = r.map_err(|e| format!("read: {e}"))?;
                    if n == 0 {
                        break;
                    }
                    sink.take(&buf[..n]);
                    // reads are partial drains: what stays is bounded by window + one block + the read size
                    obs.max_held_streaming = obs.max_held_streaming.max(sd.decoder.verif_buffer_len());
                }
                Ok(())
            }
            Drive::DecodeAll { spare } => {
                let mut out = vec![0u8; expect.len().min(8 << 20) + *spare as usize];
                obs.max_requested = 1 << 20; // decode_all asks for 1 MiB per internal call
                let n = dec.decode_all(frame, &mut out).map_err(|e| format!("decode_all: {e}"))?;
                sink.take(&out[..n]);
                Ok(())
            }
            Drive::DecodeAllUndersized { keep } => {
                let target = ((expect.len() as u64 * *keep as u64) >> 16) as usize;
                let mut out = vec![0u8; target.min(8 << 20)];
                obs.max_requested = 1 << 20;
                let r = dec.decode_all(frame, &mut out);
                // what the decoder is left holding when it gave up
                obs.max_retained = obs.max_retained.max(dec.verif_buffer_len());
                match r {
                    Ok(n) => sink.take(&out[..n]),
                    Err(e) => return Err(format!("decode_all: {e}")),
                }
                Ok(())
            }
            Drive::FromTo { chunk, target } => {
                let mut buf = vec![0u8; *target as usize];
                let mut pos = 0usize;
                // the first slice must hold the complete frame header (at most 18 bytes): the call
                // initialises the decoder from it and reports an incomplete header as an error
                let mut avail = (*chunk as usize).max(18).min(frame.len());
                obs.max_requested = avail.max(BLOCK);
                let mut idle = 0;
                loop {
                    let before = dec.verif_buffer_len();
                    let (r, w) = dec.decode_from_to(&frame[pos..avail], &mut buf).map_err(|e| format!("decode_from_to: {e}"))?;
                    let after = dec.verif_buffer_len();
                    // the call may decode every complete block contained in the offered slice
                    let offered_blocks = (avail - pos) / 3 + 1;
                    let requested = (offered_blocks.min(nblocks.max(1))) * BLOCK;
                    obs.max_requested = obs.max_requested.max(requested.min(expect.len() + BLOCK));
                    obs.max_excess = obs.max_excess.max((after + w) as i64 - before as i64 - requested as i64);
                    if r > avail - pos {
                        return Err(format!("decode_from_to reports {r} bytes consumed of {} offered", avail - pos));
                    }
                    pos += r;
                    sink.take(&buf[..w]);
                    if dec.is_finished() && dec.can_collect() == 0 {
                        break;
                    }
                    if r == 0 && w == 0 {
                        if avail == frame.len() {
                            idle += 1;
                            if idle > 2 {
                                return Err("decode_from_to makes no progress".to_string());
                            }
                        }
                        avail = (avail + (*chunk as usize).max(1)).min(frame.len());
                    } else if pos == avail {
                        avail = (avail + (*chunk as usize).max(1)).min(frame.len());
                    }
                }
                Ok(())
            }
        }
    })();
    obs.result = res;
    obs.delivered = sink.pos;
    obs.delivered_ok = sink.ok;
    obs
}

pub fn check(case: &Case, ctx: &mut CaseCtx) -> CaseResult {
    // build the frame and learn from the reference whether it is valid
    let (frame, content, max_regen, label): (Vec<u8>, Vec<u8>, usize, &'static str) = match &case.src {
        Src::Valid(fc) => match fc.build() {
            Ok(b) => (b.frame, b.content, 0, "src:valid"),
            Err(Skip::RefRefused(_)) | Err(Skip::SynthRejected(_)) => {
                ctx.feat("skipped:frame_not_built");
                return Ok(());
            }
        },
        Src::OverLong(o) => {
            let spec = overlong_spec(o);
            let out = synth(&spec, None, true);
            (out.bytes, out.content, out.max_block_regen, "src:overlong")
        }
    };
    let reference = refz::decompress(&frame, None, content.len() + 1);
    let valid = matches!(&reference, Ok(d) if d == &content);
    let over = max_regen > BLOCK;
    if over && valid {
        return Err(Failure::new("machinery", format!("reference accepts a block regenerating {max_regen} bytes")));
    }
    if !over && !valid {
        // at or below the limit but refused by the reference for another reason (e.g. block larger
        // than a small window): not a case this property speaks about
        ctx.feat("skipped:reference_rejects_for_other_reason");
        return Ok(());
    }
    let rh = refz::frame_header(&frame).map_err(|e| Failure::new("machinery", e))?;
    let window = rh.window_size;
    let nblocks = crate::model::frame::walk(&frame, &Default::default()).map(|i| i.blocks.len()).unwrap_or(64).max(1);
    ctx.feat(label);
    ctx.feat(match &case.drive {
        Drive::Blocks { strat: s, .. } => ["drive:blocks_all", "drive:upto_blocks", "drive:upto_bytes"][(*s % 3) as usize],
        Drive::Streaming { .. } => "drive:streaming",
        Drive::DecodeAll { .. } => "drive:decode_all",
        Drive::DecodeAllUndersized { .. } => "drive:decode_all_undersized_target",
        Drive::FromTo { .. } => "drive:decode_from_to",
    });
    let meter = Meter::start();
    let warm = if matches!(case.drive, Drive::FromTo { .. }) { 0 } else { case.warm.min(5) }; // decode_from_to starts frames only on a new decoder
    let obs = drive(&frame, &content, window, nblocks, &case.drive, warm);
    let peak = meter.peak();
    let warm_window: usize = if warm > 0 { 1usize << (19 + warm) } else { 0 };
    ctx.feat_if(warm > 0, "decoder:warm_(frame_with_a_larger_window_decoded_before)");
    if over {
        ctx.feat("overlong:must_reject");
        ctx.feat_if(matches!(&case.src, Src::OverLong(o) if o.plain % 3 == 1), "overlong:rle_block_above_128K");
        ctx.feat_if(matches!(&case.src, Src::OverLong(o) if o.plain % 3 == 2), "overlong:raw_block_above_128K");
        ensure!(obs.result.is_err(), "overlong_block_accepted",
            "a block regenerating {max_regen} bytes (> 128 KiB) was expanded instead of rejected; {} bytes delivered; frame {} ({} bytes), drive {:?}", obs.delivered, hexhead(&frame), frame.len(), case.drive);
    } else if let Drive::DecodeAllUndersized { keep } = &case.drive {
        let target = (((content.len() as u64 * *keep as u64) >> 16) as usize).min(8 << 20);
        if target < content.len() {
            // (that an undersized target is an error and not a silent truncation is C10's subject;
            // here: what the decoder holds when it gives up is bounded by the window, the 1 MiB it
            // asks for per internal step and one block - not by the length of the frame)
            ctx.feat("decode_all:gave_up_on_a_full_target");
            let bound = window as usize + (1 << 20) + BLOCK;
            ensure!(obs.max_retained <= bound, "undersized_target_decodes_on", "decode_all with a target of {target} bytes for {} bytes of content left the decoder holding {} bytes (window {window}, bound {bound}); frame {} bytes", content.len(), obs.max_retained, frame.len());
        }
    } else {
        if let Err(e) = &obs.result {
            // decode_all with an exact / larger target never fails on a valid frame
            return Err(Failure::new("valid_frame_rejected", format!("{e}; frame {} drive {:?}", hexhead(&frame), case.drive)));
        }
        ensure!(obs.delivered_ok && obs.delivered == content.len(), "wrong_content", "delivered {} bytes, ok={} ({}); drive {:?}", obs.delivered, obs.delivered_ok, first_diff(&content[..obs.delivered.min(content.len())], &content), case.drive);
    }
    // (2) per call: growth of held data <= requested + one block
    ensure!(obs.max_excess <= BLOCK as i64, "held_growth_exceeds_block",
        "one decode call grew the held data by {} bytes more than it was asked for (> 128 KiB): window {window}, frame {} bytes, drive {:?}", obs.max_excess, frame.len(), case.drive);
    // after a drain of an unfinished frame only the window is retained
    ensure!(matches!(case.drive, Drive::DecodeAllUndersized { .. }) || obs.max_retained as u64 <= window.max(1), "retained_more_than_window", "after draining, {} bytes retained with window {window}; drive {:?}", obs.max_retained, case.drive);
    if let Drive::Streaming { read } = &case.drive {
        ensure!(obs.max_held_streaming as u64 <= window + *read as u64 + BLOCK as u64, "streaming_holds_more_than_bound",
            "streaming decoder holds {} bytes after a read of {read} with window {window}", obs.max_held_streaming);
    }
    // (3) peak heap: catches amplification by orders of magnitude
    // (a reused decoder keeps the buffer of the largest window it has served: that allocation is the earlier frame's)
    let budget = 4 * (window as usize + obs.max_requested + BLOCK) + (8 << 20) + 2 * warm_window
        + match &case.drive { Drive::DecodeAll { spare } => content.len().min(8 << 20) + *spare as usize, Drive::DecodeAllUndersized { .. } => content.len().min(8 << 20), Drive::FromTo { target, .. } => *target as usize, Drive::Streaming { read } => *read as usize, _ => 0 }
        + if matches!(case.drive, Drive::Blocks { drain: false, .. }) || matches!(case.drive, Drive::Blocks { strat: 0, .. }) { 3 * content.len().min(nblocks * BLOCK) } else { 0 };
    ensure!(peak <= budget, "peak_heap_exceeds_budget", "peak live heap {peak} > budget {budget} (window {window}, requested {}, frame {} bytes); drive {:?}", obs.max_requested, frame.len(), case.drive);
    ctx.nontrivial = max_regen > 65_536 || (matches!(case.src, Src::Valid(_)) && content.len() as u64 > window + BLOCK as u64);
    ctx.feat_if(max_regen > 65_536 && !over, "block:64K<R<=128K_accepted");
    ctx.set_hash_bytes(&[&frame, format!("{:?}", case.drive).as_bytes()]);
    if ctx.nontrivial && frame.len() < 100 {
        ctx.sample = Some(json!({"frame_hex": hexhead(&frame), "block_regenerates": max_regen, "drive": format!("{:?}", case.drive)}));
    }
    Ok(())
}

// ------------------------------------------------------------------------------------------------
// configured limits: "together with the window limit this keeps peak memory proportional to the
// configured limit". A caller sets a limit of L bytes (any value, not only powers of two) and
// streams a frame whose window is W: either the frame is refused, or what the decoder holds stays
// within L + read size + one block. Frames are tiny (RLE blocks) with exactly chosen windows: a
// single-segment frame has window = content size, so W can be any number.

#[derive(Clone, Debug, Serialize, Deserialize)]
pub struct LimitCase {
    /// window of the frame: single-segment content size, or (exponent, mantissa) of a descriptor
    pub single_segment: bool,
    pub w: u32,
    pub wd: u8,
    /// the limit relative to the window: 0 exactly W, 1 W - delta, 2 W + delta, 3 W * num / 16
    pub rel: u8,
    pub delta: u32,
    pub num: u8,
    pub read: u32,
    /// 0 StreamingDecoder, 1 decode_blocks(UptoBytes(read)) + read, 2 decode_all into a large target
    pub drive: u8,
    /// set the limit, decode a small frame, then the frame in question (limit must persist)
    pub warm: bool,
}

fn limit_strategy() -> impl Strategy<Value = LimitCase> {
    (
        (any::<bool>(), prop_oneof![2 => 1_024u32..=300_000, 2 => 300_000u32..=3_000_000, 1 => 3_000_000u32..=20_000_000], (0u8..=13, 0u8..=7)),
        (prop_oneof![1 => Just(0u8), 4 => Just(1u8), 1 => Just(2u8), 3 => Just(3u8)], prop_oneof![Just(1u32), 1u32..=1024, 1024u32..=400_000, 131_073u32..=2_000_000], 8u8..=15),
        (prop_oneof![1u32..=64, 1000u32..=70_000], 0u8..=2, prop::bool::weighted(0.3)),
    )
        .prop_map(|((single_segment, w, (e, m)), (rel, delta, num), (read, drive, warm))| LimitCase { single_segment, w, wd: (e << 3) | m, rel, delta, num, read, drive, warm })
}

fn check_limit(case: &LimitCase, ctx: &mut CaseCtx) -> CaseResult {
    // the frame: RLE blocks of 128 KiB (the last one shorter)
    let window: u64 = if case.single_segment {
        case.w as u64
    } else {
        let e = (case.wd >> 3) as u64;
        let m = (case.wd & 7) as u64;
        (1u64 << (10 + e)) + ((1u64 << (10 + e)) / 8) * m
    };
    let total: u64 = if case.single_segment { window } else { window + 3 * BLOCK as u64 + 77 };
    let mut frame = vec![0x28, 0xB5, 0x2F, 0xFD];
    if case.single_segment {
        if total < 256 {
            frame.push(0x20);
            frame.push(total as u8);
        } else if total < 65_792 {
            frame.push(0x60);
            frame.extend_from_slice(&((total - 256) as u16).to_le_bytes());
        } else {
            frame.push(0xA0);
            frame.extend_from_slice(&(total as u32).to_le_bytes());
        }
    } else {
        frame.push(0x00);
        frame.push(case.wd);
    }
    let mut left = total;
    let mut k = 0u8;
    loop {
        let n = left.min(BLOCK as u64);
        left -= n;
        let h = ((n as u32) << 3) | (1 << 1) | (left == 0) as u32;
        frame.extend_from_slice(&h.to_le_bytes()[..3]);
        frame.push(0x30 + (k % 64));
        k = k.wrapping_add(1);
        if left == 0 {
            break;
        }
    }
    let limit: u64 = match case.rel % 4 {
        0 => window,
        1 => window.saturating_sub(case.delta as u64),
        2 => window + case.delta as u64,
        _ => window * case.num as u64 / 16,
    };
    let mut dec = FrameDecoder::new();
    dec.set_max_window_size(limit);
    if case.warm {
        let f = [0x28, 0xB5, 0x2F, 0xFD, 0x20, 0x01, 0x09, 0x00, 0x00, 0x41]; // single segment, one byte
        let mut out = [0u8; 4];
        ensure!(matches!(dec.decode_all(&f, &mut out), Ok(1)) || limit < 1, "machinery", "one-byte frame not decoded under limit {limit}");
    }
    let read = case.read.max(1) as usize;
    let bound = limit + read as u64 + BLOCK as u64;
    let mut max_held = 0usize;
    let mut delivered = 0u64;
    let meter = Meter::start();
    let outcome: Result<(), String> = (|| match case.drive % 3 {
        0 => {
            let mut sd = StreamingDecoder::new_with_decoder(&frame[..], &mut dec).map_err(|e| format!("init: {e}"))?;
            let mut buf = vec![0u8; read];
            loop {
                let r = sd.read(&mut buf);
                let n = *r.as_ref().unwrap_or(&0);
                max_held = max_held.max(sd.decoder.verif_buffer_len() + n);
                let n = r.map_err(|e| format!("read: {e}"))?;
                if n == 0 {
                    break;
                }
                delivered += n as u64;
            }
            Ok(())
        }
        1 => {
            let mut src = &frame[..];
            dec.reset(&mut src).map_err(|e| format!("init: {e}"))?;
            let mut buf = vec![0u8; read];
            loop {
                // (decode only when nothing is left to hand out: a caller that keeps asking for more
                // blocks while taking one byte at a time holds what it asked for, not what the limit allows)
                if !dec.is_finished() && dec.can_collect() == 0 {
                    dec.decode_blocks(&mut src, BlockDecodingStrategy::UptoBytes(read)).map_err(|e| format!("decode_blocks: {e}"))?;
                }
                max_held = max_held.max(dec.verif_buffer_len());
                let n = dec.read(&mut buf).map_err(|e| format!("read: {e}"))?;
                delivered += n as u64;
                if n == 0 && dec.is_finished() {
                    break;
                }
            }
            Ok(())
        }
        _ => {
            // the caller's own target is the caller's memory: what the decoder holds on top of it
            // is bounded by window + the 1 MiB it decodes per internal step
            let mut out = vec![0u8; total as usize + 16];
            let n = dec.decode_all(&frame, &mut out).map_err(|e| format!("decode_all: {e}"))?;
            delivered = n as u64;
            Ok(())
        }
    })();
    let peak = meter.peak() as u64;
    ctx.feat(["limit:equals_window", "limit:below_window", "limit:above_window", "limit:fraction_of_window"][(case.rel % 4) as usize]);
    ctx.feat_if(limit & (limit.wrapping_sub(1)) != 0, "limit:not_a_power_of_two");
    ctx.feat(if case.single_segment { "window:single_segment_content_size" } else { "window:descriptor" });
    ctx.feat(["drive:streaming", "drive:upto_bytes+read", "drive:decode_all"][(case.drive % 3) as usize]);
    ctx.feat_if(case.warm, "decoder:limit_set_before_an_earlier_frame");
    match &outcome {
        Err(_) => {
            ctx.feat("outcome:refused");
            // (whether a frame within the limit may be refused is C11's subject, not this one's)
        }
        Ok(()) => {
            ctx.feat("outcome:decoded");
            ensure!(delivered == total, "wrong_content", "{delivered} bytes delivered, the frame holds {total}");
        }
    }
    // refused or not: what was held never exceeded the configured limit + request + one block
    if case.drive % 3 != 2 {
        ensure!(max_held as u64 <= bound, "held_exceeds_configured_limit", "a decoder limited to {limit} bytes of window held {max_held} bytes (read size {read}; bound {bound}) while decoding a frame with window {window} ({}); outcome {:?}",
            if case.single_segment { "single segment" } else { "window descriptor" }, outcome.as_ref().map_err(|e| e.clone()));
    }
    let own = if case.drive % 3 == 2 { total + 16 } else { read as u64 };
    let budget = 4 * (limit + read as u64 + (1 << 20) + BLOCK as u64) + own + (4 << 20);
    ensure!(peak <= budget, "peak_heap_exceeds_budget", "peak live heap {peak} > budget {budget} under a configured limit of {limit} (window {window}, read {read}); outcome {:?}", outcome.as_ref().map_err(|e| e.clone()));
    ctx.nontrivial = limit < window && limit & (limit.wrapping_sub(1)) != 0;
    ctx.set_hash_bytes(&[&frame, &limit.to_le_bytes(), &[case.drive % 3, case.warm as u8], &case.read.to_le_bytes()]);
    if ctx.nontrivial && total < 400_000 {
        ctx.sample = Some(json!({"window": window, "limit": limit, "outcome": format!("{:?}", outcome), "max_held": max_held}));
    }
    Ok(())
}

// ------------------------------------------------------------------------------------------------
// long frames: the amount of OUTPUT must not show in the decoder's memory. Hundreds of blocks
// (RLE, short raw, compressed blocks that are one long overlapping match) whose total is tens to
// hundreds of windows, decoded incrementally: the peak heap stays within a small multiple of
// window + request + one block however long the frame is.

#[derive(Clone, Debug, Serialize, Deserialize)]
pub struct LongCase {
    pub exp: u8,
    pub mant: u8,
    pub nblocks: u16,
    /// block kinds, cycled: 0 RLE, 1 short raw, 2 compressed (4 literals + one long match)
    pub kinds: Vec<u8>,
    pub seed: u32,
    /// 0 StreamingDecoder reads, 1 UptoBytes(read) when empty + read, 2 UptoBlocks(1) + collect
    pub drive: u8,
    pub read: u32,
}

fn long_strategy() -> impl Strategy<Value = LongCase> {
    (0u8..=8, 0u8..=7, prop_oneof![40u16..=120, 120u16..=400], prop::collection::vec(prop_oneof![3 => Just(0u8), 1 => Just(1u8), 2 => Just(2u8)], 1..=5), any::<u32>(), 0u8..=2, prop_oneof![1u32..=64, 1000u32..=70_000, Just(131_072u32)])
        .prop_map(|(exp, mant, nblocks, kinds, seed, drive, read)| LongCase { exp, mant, nblocks, kinds, seed, drive, read })
}

fn check_long(case: &LongCase, ctx: &mut CaseCtx) -> CaseResult {
    let window_desc = (case.exp.min(8) << 3) | (case.mant & 7);
    let window = crate::model::frame::window_from_descriptor(window_desc) as usize;
    let blk = window.min(BLOCK);
    let mut r = crate::model::synth::Rng(case.seed as u64 | 1);
    let mut blocks = vec![];
    let mut rle_blocks = 0;
    for i in 0..case.nblocks as usize {
        match case.kinds[i % case.kinds.len()] % 3 {
            0 => {
                rle_blocks += 1;
                blocks.push(BlockSpec::Rle { byte: 0x41 + (i % 23) as u8, len: (blk - r.below(3) as usize) as u32 });
            }
            1 => blocks.push(BlockSpec::Raw { data: (0..1 + r.below(300) as usize).map(|k| (k * 7 + i) as u8).collect() }),
            _ => blocks.push(BlockSpec::Comp(CompSpec {
                literals: vec![b'w', b'x', b'y', b'z'],
                lit_mode: 0,
                lit_fmt: 0,
                huf_shape: 0,
                huf_fse: false,
                seqs: vec![SeqSpec { ll: 4, ml: (blk - 4 - r.below(5) as usize).max(3) as u32, off: OffSpec::Abs(1 + r.below(4) as u32) }],
                count_fmt: 0,
                modes: [0; 3],
                tables: [(6, 1), (6, 2), (6, 3)],
            })),
        }
    }
    let spec = FrameSpec { single_segment: false, window_desc, fcs_bytes: 0, checksum: case.seed % 2 == 0, dict_id_bytes: 0, zero_dict_id: false, blocks };
    let out = synth(&spec, None, false);
    if out.invalid || out.window_size != window as u64 {
        ctx.feat("skipped:frame_not_built");
        return Ok(());
    }
    let read = case.read.max(1) as usize;
    let mut sink = Sinker { expect: &out.content, pos: 0, ok: true };
    let mut dec = FrameDecoder::new();
    let meter = Meter::start();
    let outcome: Result<(), String> = (|| match case.drive % 3 {
        0 => {
            let mut sd = StreamingDecoder::new_with_decoder(&out.bytes[..], &mut dec).map_err(|e| format!("init: {e}"))?;
            let mut buf = vec![0u8; read];
            loop {
                let n = sd.read(&mut buf).map_err(|e| format!("read: {e}"))?;
                if n == 0 {
                    break;
                }
                sink.take(&buf[..n]);
            }
            Ok(())
        }
        1 => {
            let mut src = &out.bytes[..];
            dec.reset(&mut src).map_err(|e| format!("init: {e}"))?;
            let mut buf = vec![0u8; read];
            loop {
                if !dec.is_finished() && dec.can_collect() == 0 {
                    dec.decode_blocks(&mut src, BlockDecodingStrategy::UptoBytes(read)).map_err(|e| format!("decode_blocks: {e}"))?;
                }
                let n = dec.read(&mut buf).map_err(|e| format!("read: {e}"))?;
                sink.take(&buf[..n]);
                if n == 0 && dec.is_finished() {
                    break;
                }
            }
            Ok(())
        }
        _ => {
            let mut src = &out.bytes[..];
            dec.reset(&mut src).map_err(|e| format!("init: {e}"))?;
            while !dec.is_finished() {
                dec.decode_blocks(&mut src, BlockDecodingStrategy::UptoBlocks(1)).map_err(|e| format!("decode_blocks: {e}"))?;
                if let Some(v) = dec.collect() {
                    sink.take(&v);
                }
            }
            if let Some(v) = dec.collect() {
                sink.take(&v);
            }
            Ok(())
        }
    })();
    let peak = meter.peak();
    if let Err(e) = &outcome {
        return Err(Failure::new("valid_frame_rejected", format!("{e}; long frame of {} blocks, window {window}", case.nblocks)));
    }
    ensure!(sink.ok && sink.pos == out.content.len(), "wrong_content", "delivered {} of {} bytes, ok={}", sink.pos, out.content.len(), sink.ok);
    // (the ring allocates the next power of two above window + what one call adds; collect() hands
    // out a vector of its own: 4 x covers both, 1 MiB for everything small)
    let budget = 4 * (window + read.max(BLOCK) + BLOCK) + (1 << 20);
    ensure!(peak <= budget, "memory_grows_with_output", "peak live heap {peak} > {budget} while decoding {} bytes of output from {} bytes of input ({} blocks, window {window}, read size {read}, drive {})",
        out.content.len(), out.bytes.len(), case.nblocks, case.drive % 3);
    ctx.feat(["drive:streaming", "drive:upto_bytes+read", "drive:upto_blocks+collect"][(case.drive % 3) as usize]);
    ctx.feat_if(rle_blocks > 30, "blocks:30+_rle");
    ctx.feat_if(out.content.len() > 64 * window, "output:more_than_64_windows");
    ctx.feat_if(out.content.len() > (16 << 20), "output:more_than_16MiB");
    ctx.nontrivial = out.content.len() > 16 * window;
    ctx.set_hash_bytes(&[&out.bytes, &[case.drive % 3], &case.read.to_le_bytes()]);
    Ok(())
}

pub fn run(eng: &Engine) {
    eng.set_rule("valid frames (three sources) and synthesized frames with one over-long compressed block (regenerated size around and far above 128 KiB, built from a few literals plus max-length matches, or from 20-bit RLE/raw literals), each driven by decode_blocks (All/UptoBlocks/UptoBytes, with or without draining), StreamingDecoder reads, decode_all (also with an undersized target), decode_from_to, on a new decoder or on one that has decoded a tiny frame declaring a 1..16 MiB window before; non-trivial = a block regenerating > 64 KiB, or valid content exceeding window + 128 KiB; distinct by (frame, drive) hash");
    eng.assume("held data observed through the hook FrameDecoder::verif_buffer_len and the per-thread counting allocator");
    eng.assume("over-long blocks capped at 2000 sequences so a missing guard cannot exhaust the sandbox");
    let n = eng.tier.pick(12_000, 200_000);
    let tier = eng.tier;
    eng.run_stage("frames", n, || case_strategy(tier), check);
    let nl = eng.tier.pick(30_000, 400_000);
    eng.run_stage("configured_limits", nl, limit_strategy, check_limit);
    let ng = eng.tier.pick(1_500, 30_000);
    eng.run_stage("long_frames", ng, long_strategy, check_long);
}

pub fn replay(eng: &Engine, stage: &str, case: &Value) -> CaseResult {
    match stage {
        "frames" => eng.replay_value(stage, case, check),
        "configured_limits" => eng.replay_value(stage, case, check_limit),
        "long_frames" => eng.replay_value(stage, case, check_long),
        _ => Err(Failure::new("machinery", format!("unknown stage {stage}"))),
    }
}
