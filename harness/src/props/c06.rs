//! C06 Decoded stream is independent of how the caller drives the decoder
//! (and the decoder side of C08: checksums over exactly the delivered bytes).

use crate::drivers::CountingReader;
use crate::engine::{CaseCtx, CaseResult, Engine, Failure, Tier};
use crate::gen::frames::{frame_case_small_window, frame_case_strategy, FrameCase, Skip};
use crate::model::xxh64;
use crate::props::c01::{first_diff, hexhead};
use crate::{ensure, fail, refz};
use proptest::prelude::*;
use ruzstd::decoding::{BlockDecodingStrategy, FrameDecoder, StreamingDecoder};
use serde::{Deserialize, Serialize};
use serde_json::{json, Value};
use std::io::{Read, Write};

#[derive(Clone, Debug, Serialize, Deserialize, PartialEq)]
pub struct SinkSpec {
    /// bytes accepted per write call (0 = all)
    pub per_call: u16,
    /// Ok(0) once this many bytes were taken in this drain
    pub stop_after: Option<u16>,
    /// WouldBlock on every n-th write call (the drain is retried by a later op)
    pub transient_every: Option<u8>,
    /// hard error once this many bytes were taken
    pub fail_after: Option<u16>,
}

#[derive(Clone, Debug, Serialize, Deserialize, PartialEq)]
pub enum POp {
    Decode { strat: u8, n: u32 },
    Collect,
    Read(u32),
    ToWriter(SinkSpec),
    Query,
}

#[derive(Clone, Debug, Serialize, Deserialize)]
pub enum Program {
    /// FrameDecoder driven by an op list; source reader fragments reads into `src_chunk` bytes
    Frame { ops: Vec<POp>, src_chunk: u16, #[serde(default)] rounds: u8 },
    /// StreamingDecoder with read sizes (cycled)
    Streaming { reads: Vec<u32>, src_chunk: u16 },
    /// decode_from_to: chunk sizes (cycled), target sizes (cycled), how the trailing checksum is split
    FromTo { chunks: Vec<u32>, targets: Vec<u32>, tail_split: u8 },
}

#[derive(Clone, Debug, Serialize, Deserialize)]
pub struct Case {
    pub frame: FrameCase,
    pub program: Program,
    pub garbage: u8,
    /// the decoder has completely decoded another (checksummed) frame before: what a driver sees
    /// must not depend on that either
    #[serde(default)]
    pub warm: bool,
}

fn sink_strategy() -> impl Strategy<Value = SinkSpec> {
    (
        prop_oneof![Just(0u16), 1u16..=33, 100u16..=5000],
        prop::option::weighted(0.3, 0u16..=3000),
        prop::option::weighted(0.3, 1u8..=4),
        prop::option::weighted(0.15, 0u16..=3000),
    )
        .prop_map(|(per_call, stop_after, transient_every, fail_after)| SinkSpec { per_call, stop_after, transient_every, fail_after })
}

fn pop_strategy() -> impl Strategy<Value = POp> {
    let n = prop_oneof![Just(0u32), Just(1u32), 1u32..=4, 1u32..=3000, 1u32..=200_000, Just(1u32 << 20)];
    let r = prop_oneof![Just(0u32), Just(1u32), Just(7u32), Just(4096u32), Just(65_536u32), Just(1u32 << 20), 1u32..=70_000];
    prop_oneof![
        6 => (0u8..=2, n).prop_map(|(strat, n)| POp::Decode { strat, n }),
        2 => Just(POp::Collect),
        3 => r.prop_map(POp::Read),
        3 => sink_strategy().prop_map(POp::ToWriter),
        1 => Just(POp::Query),
    ]
}

fn program_strategy() -> impl Strategy<Value = Program> {
    let chunk = || prop_oneof![Just(0u16), Just(1u16), 2u16..=17, 100u16..=9000];
    let sizes = || prop::collection::vec(prop_oneof![Just(0u32), Just(1u32), 1u32..=40, 1u32..=5000, 1000u32..=140_000], 1..6);
    // "pump": one small decode step followed by two drains of (possibly) different kinds, repeated
    // through the frame: keeps the ring wrapped while every drain path is exercised
    let drain = || prop_oneof![
        2 => Just(POp::Collect),
        3 => prop_oneof![1u32..=64, 100u32..=9000, Just(1u32 << 20)].prop_map(POp::Read),
        3 => sink_strategy().prop_map(POp::ToWriter),
    ];
    let step = prop_oneof![
        (1u32..=2).prop_map(|n| POp::Decode { strat: 1, n }),
        (1u32..=20_000).prop_map(|n| POp::Decode { strat: 2, n }),
    ];
    prop_oneof![
        4 => (step, drain(), drain(), chunk()).prop_map(|(a, b, c, src_chunk)| Program::Frame { ops: vec![a, b, c], src_chunk, rounds: 200 }),
        5 => (prop::collection::vec(pop_strategy(), 0..24), chunk(), prop_oneof![Just(1u8), 2u8..=40]).prop_map(|(ops, src_chunk, rounds)| Program::Frame { ops, src_chunk, rounds }),
        2 => (sizes(), chunk()).prop_map(|(reads, src_chunk)| Program::Streaming { reads, src_chunk }),
        3 => (prop::collection::vec(prop_oneof![1u32..=40, 1u32..=5000, 1000u32..=140_000], 1..6), sizes(), 0u8..=4)
            .prop_map(|(chunks, targets, tail_split)| Program::FromTo { chunks, targets, tail_split }),
    ]
}

pub fn case_strategy(tier: Tier) -> impl Strategy<Value = Case> {
    let frames = prop_oneof![1 => frame_case_strategy(tier), 2 => frame_case_small_window(tier)];
    (frames, program_strategy(), prop_oneof![Just(0u8), 1u8..=16]).prop_map(|(frame, program, garbage)| {
        let warm = garbage % 3 == 1;
        Case { frame, program, garbage, warm }
    })
}

struct ProgSink<'a> {
    out: &'a mut Vec<u8>,
    spec: &'a SinkSpec,
    taken: usize,
    calls: u32,
}
impl Write for ProgSink<'_> {
    fn write(&mut self, buf: &[u8]) -> std::io::Result<usize> {
        self.calls += 1;
        if let Some(t) = self.spec.transient_every {
            if self.calls % (t as u32 + 1) == 0 {
                return Err(std::io::Error::new(std::io::ErrorKind::WouldBlock, "try again"));
            }
        }
        if let Some(f) = self.spec.fail_after {
            if self.taken >= f as usize {
                return Err(std::io::Error::new(std::io::ErrorKind::Other, "sink failed"));
            }
        }
        let mut n = buf.len();
        if self.spec.per_call > 0 {
            n = n.min(self.spec.per_call as usize);
        }
        if let Some(s) = self.spec.stop_after {
            n = n.min((s as usize).saturating_sub(self.taken));
        }
        if let Some(f) = self.spec.fail_after {
            n = n.min(f as usize - self.taken);
        }
        self.out.extend_from_slice(&buf[..n]);
        self.taken += n;
        Ok(n)
    }
    fn flush(&mut self) -> std::io::Result<()> {
        Ok(())
    }
}

#[derive(Default)]
pub struct Stats {
    pub decode_calls_before_finish: u32,
    pub drains_before_finish: u32,
    pub wrapped_drain_paths: [bool; 3], // collect, read, writer while the ring was wrapped
    pub partial_sink: bool,
    pub sink_error: bool,
    pub checksum_alone: bool,
    pub one_byte_source: bool,
    pub offered_past_frame_end: bool,
}

fn wrapped(dec: &FrameDecoder) -> bool {
    let (_, h, t) = dec.verif_ring_state();
    t < h
}

/// Executes the program; returns everything delivered, in order.
pub fn execute(frame: &[u8], frame_len: usize, window: u64, program: &Program, st: &mut Stats, warm: bool) -> Result<(Vec<u8>, FrameDecoder), Failure> {
    let mut out: Vec<u8> = vec![];
    let mut dec = FrameDecoder::new();
    if window > ruzstd::decoding::DEFAULT_MAX_WINDOW_SIZE {
        dec.set_max_window_size(window);
    }
    if warm {
        ringops::decode_drive::warm_up(&mut dec).map_err(|e| Failure::new("valid_frame_rejected", e))?;
    }
    // no frame delivers more than its block headers allow: a drain loop that passes this mark is
    // being fed by a decoder that hands out bytes it does not have (and would never end)
    let out_bound = ringops::decode_drive::output_bound(&frame[..frame_len.min(frame.len())]);
    macro_rules! bounded {
        ($what:expr) => {
            ensure!(out.len() <= out_bound, "more_output_than_the_frame_holds", "{} has delivered {} bytes, the frame's block headers allow at most {out_bound}", $what, out.len());
        };
    }
    match program {
        Program::Frame { ops, src_chunk, rounds } => {
            st.one_byte_source = *src_chunk == 1;
            let mut src = CountingReader { data: frame, pos: 0, chunk: *src_chunk as usize };
            dec.reset(&mut src).map_err(|e| Failure::new("valid_frame_rejected", format!("reset: {e}")))?;
            let check_query = |dec: &FrameDecoder| -> Result<(), Failure> {
                let held = dec.verif_buffer_len();
                let want = if dec.is_finished() { held } else { held.saturating_sub(window as usize) };
                ensure!(dec.can_collect() == want, "can_collect_wrong", "can_collect() = {} with {} bytes held, window {window}, finished {}", dec.can_collect(), held, dec.is_finished());
                Ok(())
            };
            // the op list is repeated (up to `rounds` times) while the frame is unfinished, so that
            // the decode/drain interleaving persists through the whole frame
            let total_ops = ops.len() * (*rounds).max(1) as usize;
            for (k, op) in ops.iter().cycle().take(total_ops).enumerate() {
                if k >= ops.len() && dec.is_finished() {
                    break;
                }
                match op {
                    POp::Decode { strat, n } => {
                        if dec.is_finished() {
                            continue;
                        }
                        st.decode_calls_before_finish += 1;
                        let s = match strat % 3 {
                            0 => BlockDecodingStrategy::All,
                            1 => BlockDecodingStrategy::UptoBlocks(*n as usize),
                            _ => BlockDecodingStrategy::UptoBytes(*n as usize),
                        };
                        let before_blocks = dec.blocks_decoded();
                        let fin = dec.decode_blocks(&mut src, s).map_err(|e| Failure::new("valid_frame_rejected", format!("decode_blocks: {e}")))?;
                        ensure!(fin == dec.is_finished(), "decode_blocks_result", "decode_blocks returned {fin}, is_finished {}", dec.is_finished());
                        if let (1, false) = (strat % 3, dec.is_finished()) {
                            let did = dec.blocks_decoded() - before_blocks;
                            ensure!(did == (*n as usize).max(1), "upto_blocks_count", "UptoBlocks({n}) decoded {did} blocks");
                        }
                    }
                    POp::Collect => {
                        let fin = dec.is_finished();
                        let w = wrapped(&dec);
                        let held = dec.verif_buffer_len();
                        if let Some(v) = dec.collect() {
                            if !fin {
                                st.drains_before_finish += 1;
                            }
                            if w && !v.is_empty() {
                                st.wrapped_drain_paths[0] = true;
                            }
                            let want = if fin { held } else { held.saturating_sub(window as usize) };
                            ensure!(v.len() == want, "collect_amount", "collect() returned {} bytes, expected {want} (held {held}, window {window}, finished {fin})", v.len());
                            out.extend_from_slice(&v);
                        }
                    }
                    POp::Read(n) => {
                        let fin = dec.is_finished();
                        let w = wrapped(&dec);
                        let mut buf = vec![0x5Au8; *n as usize];
                        let avail = dec.can_collect();
                        let k = dec.read(&mut buf).map_err(|e| Failure::new("read_error", format!("read: {e}")))?;
                        ensure!(k == avail.min(*n as usize), "read_amount", "read({n}) returned {k} with {avail} collectable");
                        ensure!(buf[k..].iter().all(|&b| b == 0x5A), "read_wrote_past_count", "read({n}) returned {k} but wrote beyond it");
                        if k > 0 {
                            if !fin {
                                st.drains_before_finish += 1;
                            }
                            if w {
                                st.wrapped_drain_paths[1] = true;
                            }
                        }
                        out.extend_from_slice(&buf[..k]);
                    }
                    POp::ToWriter(spec) => {
                        let fin = dec.is_finished();
                        let w = wrapped(&dec);
                        let avail = dec.can_collect();
                        let before = out.len();
                        let mut sink = ProgSink { out: &mut out, spec, taken: 0, calls: 0 };
                        let r = dec.collect_to_writer(&mut sink);
                        let took = out.len() - before;
                        ensure!(took <= avail, "writer_overdrain", "collect_to_writer handed out {took} bytes with {avail} collectable");
                        match r {
                            Ok(n) => {
                                ensure!(n == took, "writer_count", "collect_to_writer returned {n}, sink accepted {took}");
                                let limited = spec.stop_after.map(|s| (s as usize) < avail).unwrap_or(false);
                                ensure!(took == avail || limited, "writer_short", "collect_to_writer delivered {took} of {avail} although the sink kept accepting");
                            }
                            Err(_) => {
                                st.sink_error = true;
                                ensure!(spec.transient_every.is_some() || spec.fail_after.is_some(), "writer_spurious_error", "collect_to_writer failed although the sink never failed");
                            }
                        }
                        if took < avail {
                            st.partial_sink = true;
                        }
                        if took > 0 {
                            if !fin {
                                st.drains_before_finish += 1;
                            }
                            if w {
                                st.wrapped_drain_paths[2] = true;
                            }
                        }
                        // what stays behind is exactly the rest
                        let want_left = avail - took;
                        ensure!(dec.can_collect() == want_left, "writer_lost_or_duplicated", "after a sink took {took} of {avail} bytes, {} are collectable (expected {want_left})", dec.can_collect());
                    }
                    POp::Query => check_query(&dec)?,
                }
            }
            // canonical tail
            while !dec.is_finished() {
                dec.decode_blocks(&mut src, BlockDecodingStrategy::UptoBlocks(3)).map_err(|e| Failure::new("valid_frame_rejected", format!("decode_blocks (tail): {e}")))?;
                if let Some(v) = dec.collect() {
                    out.extend_from_slice(&v);
                }
            }
            check_query(&dec)?;
            let mut guard = 0;
            while dec.can_collect() > 0 {
                let mut buf = vec![0u8; 70_001];
                let k = dec.read(&mut buf).map_err(|e| Failure::new("read_error", format!("read (tail): {e}")))?;
                out.extend_from_slice(&buf[..k]);
                bounded!("read() (tail)");
                guard += 1;
                if k == 0 || guard > 1_000_000 {
                    fail!("drain_stalls", "read() returns 0 while can_collect() = {}", dec.can_collect());
                }
            }
            ensure!(src.pos == frame_len, "source_position", "reader advanced to {} but the frame is {frame_len} bytes (trailing data must stay untouched)", src.pos);
        }
        Program::Streaming { reads, src_chunk } => {
            st.one_byte_source = *src_chunk == 1;
            let mut src = CountingReader { data: frame, pos: 0, chunk: *src_chunk as usize };
            {
                let mut sd = StreamingDecoder::new_with_decoder(&mut src, &mut dec).map_err(|e| Failure::new("valid_frame_rejected", format!("streaming init: {e}")))?;
                let mut i = 0usize;
                let mut zero_reads = 0;
                loop {
                    let n = reads[i % reads.len()] as usize;
                    i += 1;
                    let mut buf = vec![0x5Au8; n];
                    let k = sd.read(&mut buf).map_err(|e| Failure::new("valid_frame_rejected", format!("streaming read: {e}")))?;
                    ensure!(k <= n && buf[k..].iter().all(|&b| b == 0x5A), "read_wrote_past_count", "streaming read({n}) returned {k} / wrote beyond");
                    out.extend_from_slice(&buf[..k]);
                    bounded!("StreamingDecoder::read");
                    if n == 0 {
                        zero_reads += 1;
                        if zero_reads > reads.len() * 4 {
                            // only zero-sized reads in the list: finish with a real buffer
                            let mut rest = vec![];
                            sd.read_to_end(&mut rest).map_err(|e| Failure::new("valid_frame_rejected", format!("streaming read_to_end: {e}")))?;
                            out.extend_from_slice(&rest);
                            break;
                        }
                        continue;
                    }
                    if k == 0 {
                        break;
                    }
                    if !sd.decoder.is_finished() {
                        st.drains_before_finish += 1;
                        st.decode_calls_before_finish += 1;
                    }
                }
            }
            ensure!(src.pos == frame_len, "source_position", "streaming: reader advanced to {} but the frame is {frame_len} bytes", src.pos);
        }
        Program::FromTo { chunks, targets, tail_split } => {
            // cut list: cumulative positions at which more input becomes available
            let has_checksum = frame_len >= 4 && frame[4] & 4 != 0;
            let mut cuts: Vec<usize> = vec![];
            let mut p = 18usize.min(frame_len);
            let body_end = if has_checksum && *tail_split > 0 { frame_len - 4 } else { frame_len };
            let mut i = 0;
            while p < body_end {
                cuts.push(p);
                p = (p + chunks[i % chunks.len()] as usize).min(body_end);
                i += 1;
            }
            cuts.push(body_end);
            if has_checksum && *tail_split > 0 {
                st.checksum_alone = true;
                match tail_split {
                    1 => cuts.push(frame_len),
                    2 => cuts.extend([frame_len - 2, frame_len]),
                    3 => cuts.extend([body_end, frame_len - 1, frame_len]),
                    _ => cuts.extend([frame_len - 3, frame_len - 3, frame_len - 1, frame_len]),
                }
            }
            // bytes that follow the frame in the caller's buffer (another frame, anything): the last
            // offer reaches past the end of the frame - the call must take the frame's bytes only
            if frame.len() > frame_len && *tail_split % 2 == 0 {
                if let Some(last) = cuts.last_mut() {
                    *last = frame.len();
                }
                st.offered_past_frame_end = true;
            }
            let mut pos = 0usize;
            let mut ci = 0usize;
            let mut ti = 0usize;
            let mut idle_at_end = 0;
            let mut total_read = 0usize;
            if warm {
                // decode_from_to starts a frame by itself only on a decoder without state: a used
                // one is pointed at the new frame with reset(), which reads the header
                let mut hsrc = &frame[..cuts[0].max(18).min(frame_len)];
                let before = hsrc.len();
                dec.reset(&mut hsrc).map_err(|e| Failure::new("valid_frame_rejected", format!("reset on a used decoder: {e}")))?;
                pos = before - hsrc.len();
                total_read = pos;
            }
            let mut pool: Vec<u8> = vec![];
            loop {
                let avail = cuts[ci.min(cuts.len() - 1)];
                let offered = &frame[pos..avail];
                // (a list of only zero-sized targets could never drain: fall back to 1 KiB after two rounds)
                let mut tsize = targets[ti % targets.len()] as usize;
                if tsize == 0 && ti >= 2 * targets.len() {
                    tsize = 1024;
                }
                // one target buffer, kept filled with the canary value (a fresh allocation per call
                // costs more than the call when the source arrives two bytes at a time)
                if pool.len() < tsize {
                    pool.resize(tsize, 0x5A);
                }
                let buf = &mut pool[..tsize];
                ti += 1;
                let fin_before = dec.is_finished() && dec.bytes_read_from_source() > 0;
                let (r, w) = dec.decode_from_to(offered, buf).map_err(|e| Failure::new("valid_frame_rejected", format!("decode_from_to({} bytes offered at {pos}): {e}", offered.len())))?;
                ensure!(r <= offered.len(), "from_to_overconsume", "decode_from_to reports {r} bytes consumed but only {} were offered (position {pos} of {frame_len})", offered.len());
                // (the canary scan looks at what lies behind the reported count, at most 4 KiB per call)
                ensure!(w <= buf.len() && buf[w..(w + 4096).min(buf.len())].iter().all(|&b| b == 0x5A), "read_wrote_past_count", "decode_from_to wrote {w} into a target of {} / beyond", buf.len());
                ensure!(!(fin_before && r > 0), "from_to_consumes_after_end", "decode_from_to consumed {r} bytes after the frame was finished");
                if !dec.is_finished() && w > 0 {
                    st.drains_before_finish += 1;
                }
                if r > 0 {
                    st.decode_calls_before_finish += 1;
                }
                pos += r;
                total_read += r;
                out.extend_from_slice(&buf[..w]);
                buf[..w].fill(0x5A);
                bounded!("decode_from_to");
                let buf_is_empty = buf.is_empty();
                if dec.is_finished() && dec.can_collect() == 0 {
                    break;
                }
                if r == 0 && w == 0 {
                    if ci + 1 < cuts.len() {
                        ci += 1;
                    } else if !buf_is_empty {
                        idle_at_end += 1;
                        if idle_at_end > 3 {
                            fail!("from_to_stalls", "decode_from_to makes no progress with the complete frame offered (position {pos} of {frame_len}, finished {}, collectable {})", dec.is_finished(), dec.can_collect());
                        }
                        // zero-sized targets in the list: rotate to the next target size
                    }
                } else if pos >= avail && ci + 1 < cuts.len() {
                    ci += 1;
                }
            }
            ensure!(total_read == frame_len, "from_to_total", "decode_from_to consumed {total_read} bytes in total, the frame has {frame_len}");
        }
    }
    Ok((out, dec))
}

pub fn check_with(case: &Case, ctx: &mut CaseCtx, c08: bool) -> CaseResult {
    let built = match case.frame.build() {
        Ok(b) => b,
        Err(Skip::RefRefused(_)) | Err(Skip::SynthRejected(_)) => {
            ctx.feat("skipped:frame_not_built");
            return Ok(());
        }
    };
    let frame_len = built.frame.len();
    let mut src = built.frame.clone();
    for i in 0..case.garbage {
        src.push(0xD0u8.wrapping_add(i.wrapping_mul(37)));
    }
    let rh = refz::frame_header(&built.frame).map_err(|e| Failure::new("machinery", e))?;
    let mut st = Stats::default();
    // decode_from_to programs see the bytes behind the frame only in their last offer (see execute)
    let input: &[u8] = &src;
    let (out, dec) = execute(input, frame_len, rh.window_size, &case.program, &mut st, case.warm).map_err(|mut f| {
        f.msg = format!("{}; frame {} ({} bytes, {}), program {:?}", f.msg, hexhead(&built.frame), frame_len, built.source, case.program);
        f
    })?;
    ensure!(out == built.content, "wrong_content", "delivered bytes differ from the content ({}); program {:?}", first_diff(&out, &built.content), case.program);
    ensure!(dec.is_finished(), "not_finished", "frame consumed but is_finished() is false");
    ensure!(dec.bytes_read_from_source() == frame_len as u64, "consumed", "bytes_read_from_source() = {}, frame has {frame_len} bytes; program {:?}", dec.bytes_read_from_source(), case.program);
    let want = xxh64::checksum32(&built.content);
    ensure!(dec.get_calculated_checksum() == Some(want), "calculated_checksum", "calculated checksum {:?} != XXH64-32 of the delivered bytes {want:#x}; program {:?}", dec.get_calculated_checksum(), case.program);
    if rh.checksum {
        ensure!(dec.get_checksum_from_data() == Some(want), "stored_checksum", "get_checksum_from_data() = {:?}, expected {want:#x}", dec.get_checksum_from_data());
    } else {
        ensure!(dec.get_checksum_from_data().is_none(), "stored_checksum", "frame without checksum reports {:?}", dec.get_checksum_from_data());
    }
    // accounting
    ctx.feat(match case.program {
        Program::Frame { .. } => "prog:frame_decoder",
        Program::Streaming { .. } => "prog:streaming",
        Program::FromTo { .. } => "prog:decode_from_to",
    });
    ctx.feat_if(st.offered_past_frame_end, "from_to:last_offer_reaches_past_the_frame_end");
    ctx.feat_if(case.warm, "decoder:warm_(a_checksummed_frame_completed_before)");
    ctx.feat_if(st.partial_sink, "sink:partial");
    ctx.feat_if(st.sink_error, "sink:error_then_retry");
    ctx.feat_if(st.checksum_alone, "from_to:checksum_split");
    ctx.feat_if(st.one_byte_source, "source:1_byte_reads");
    ctx.feat_if(case.garbage > 0, "source:trailing_garbage");
    ctx.feat_if(st.wrapped_drain_paths[0], "wrapped_drain:collect");
    ctx.feat_if(st.wrapped_drain_paths[1], "wrapped_drain:read");
    ctx.feat_if(st.wrapped_drain_paths[2], "wrapped_drain:writer");
    ctx.feat_if(rh.checksum, "frame:checksum");
    let beyond_window = built.content.len() as u64 > rh.window_size;
    ctx.nontrivial = if c08 {
        st.wrapped_drain_paths.iter().filter(|&&x| x).count() >= 2 || (st.drains_before_finish >= 1 && beyond_window)
    } else {
        st.decode_calls_before_finish >= 2 && st.drains_before_finish >= 1 && beyond_window
    };
    ctx.set_hash_bytes(&[&built.frame, serde_json::to_vec(&case.program).unwrap().as_slice()]);
    if ctx.nontrivial && built.frame.len() < 200 {
        ctx.sample = Some(json!({"frame_hex": hexhead(&built.frame), "content_len": built.content.len(), "window": rh.window_size, "program": serde_json::to_value(&case.program).unwrap()}));
    }
    Ok(())
}

pub fn check(case: &Case, ctx: &mut CaseCtx) -> CaseResult {
    check_with(case, ctx, false)
}

pub fn run(eng: &Engine) {
    eng.set_rule("(valid frame, driver program) pairs: FrameDecoder op lists (decode_blocks with every strategy/budget, collect, read, collect_to_writer with partial / stopping / transiently failing / failing sinks, queries) over fragmenting readers with trailing garbage; StreamingDecoder read-size lists; decode_from_to chunk/target lists incl. the checksum arriving alone or in parts; ground truth is the original content, not another schedule; non-trivial = >= 2 decode calls interleaved with >= 1 drain before the frame finished on a frame whose content exceeds its window; distinct by (frame, program) hash");
    eng.assume("decode_from_to: the first slice contains the complete frame header (the call initialises from it); decode_blocks is not called after the frame finished");
    let n = eng.tier.pick(25_000, 400_000);
    let tier = eng.tier;
    eng.run_stage("programs", n, || case_strategy(tier), check);
}

pub fn replay(eng: &Engine, stage: &str, case: &Value) -> CaseResult {
    match stage {
        "programs" => eng.replay_value(stage, case, check),
        _ => Err(Failure::new("machinery", format!("unknown stage {stage}"))),
    }
}
