//! C16 Compression is correct for every well-behaved user-supplied matcher.

use crate::engine::{CaseCtx, CaseResult, Engine, Failure, Tier};
use crate::gen::data::{data_strategy, DataSpec};
use crate::model::codes::{LL_TABLE, ML_TABLE};
use crate::model::frame::{self, WalkOpts};
use crate::model::synth::Rng;
use crate::props::c01::hexhead;
use crate::props::c02::verify_frame;
use crate::{ensure, refz};
use proptest::prelude::*;
use ruzstd::encoding::{CompressionLevel, FrameCompressor, Matcher, Sequence};
use serde::{Deserialize, Serialize};
use serde_json::{json, Value};

const BLK: usize = 128 * 1024;

/// one scripted sequence: literal run, then a match
#[derive(Clone, Copy, Debug, PartialEq)]
pub struct Seq {
    pub ll: u32,
    pub ml: u32,
    pub off: u32,
}

#[derive(Clone, Debug)]
pub struct BlockScript {
    pub len: usize,
    pub seqs: Vec<Seq>,
}

pub struct Script {
    pub data: Vec<u8>,
    pub blocks: Vec<BlockScript>,
    pub window: u64,
}

pub struct ScriptedMatcher {
    script: std::rc::Rc<Script>,
    idx: usize,
    last: Vec<u8>,
    /// set when the compressor asks for the sequences of a space that is not the scripted one
    /// (it did not account for every space it was handed with commit + skip/start)
    desync: std::rc::Rc<std::cell::Cell<Option<(usize, usize, usize)>>>,
}

impl ScriptedMatcher {
    /// (matcher, cell that is set when the compressor breaks the matcher protocol)
    pub fn new(script: std::rc::Rc<Script>) -> (ScriptedMatcher, std::rc::Rc<std::cell::Cell<Option<(usize, usize, usize)>>>) {
        let desync = std::rc::Rc::new(std::cell::Cell::new(None));
        (ScriptedMatcher { script, idx: 0, last: vec![], desync: desync.clone() }, desync)
    }
}

impl Matcher for ScriptedMatcher {
    fn get_next_space(&mut self) -> Vec<u8> {
        // the space length is the block length; past the script a 1-byte space lets the
        // compressor see the end of the input
        let n = self.script.blocks.get(self.idx).map(|b| b.len).unwrap_or(1);
        vec![0; n]
    }
    fn get_last_space(&mut self) -> &[u8] {
        &self.last
    }
    fn commit_space(&mut self, space: Vec<u8>) {
        self.last = space;
    }
    fn skip_matching(&mut self) {
        self.idx += 1;
    }
    fn start_matching(&mut self, mut handle_sequence: impl for<'a> FnMut(Sequence<'a>)) {
        let Some(b) = self.script.blocks.get(self.idx).filter(|b| b.len == self.last.len()) else {
            self.desync.set(Some((self.idx, self.script.blocks.get(self.idx).map(|b| b.len).unwrap_or(0), self.last.len())));
            handle_sequence(Sequence::Literals { literals: &self.last });
            self.idx += 1;
            return;
        };
        let mut pos = 0usize;
        for s in &b.seqs {
            handle_sequence(Sequence::Triple {
                literals: &self.last[pos..pos + s.ll as usize],
                offset: s.off as usize,
                match_len: s.ml as usize,
            });
            pos += (s.ll + s.ml) as usize;
        }
        if pos < self.last.len() {
            handle_sequence(Sequence::Literals { literals: &self.last[pos..] });
        }
        self.idx += 1;
    }
    fn reset(&mut self, _level: CompressionLevel) {
        self.idx = 0;
        self.last.clear();
    }
    fn window_size(&self) -> u64 {
        self.script.window
    }
}

#[derive(Clone, Debug, Serialize, Deserialize)]
pub enum Shape {
    /// n generic sequences
    Generic { n: u16 },
    /// n sequences of (ll 0, ml 3 + extra): up to one sequence per 3 bytes
    Many { n: u32, extra: u8 },
    AllLlZero { n: u16 },
    AllMlThree { n: u16 },
    CodeEdges { n: u8 },
    HugeLl { ll: u32 },
    HugeMl { ml: u32 },
    /// > 1024 literals of ONE byte value plus a match, in a block that is not RLE
    OneValueLiterals { n: u32 },
    /// literals just around the 1 KiB / 16 KiB format thresholds, Huffman friendly
    ThresholdLiterals { n: u32, alpha: u8 },
    /// incompressible literals (the block ends up raw)
    Incompressible { n: u32 },
    FarOffsets { n: u8 },
    /// the code histogram of one (or all) of offsets / literal lengths / match lengths is FLAT over
    /// `k` codes (`per` sequences each) plus one sequence with a rare code: the shape that drives the
    /// compressor's table normalisation to its largest sums (accuracy log limit 8 for offsets, 9 for
    /// the lengths). which: 0 offsets, 1 literal lengths, 2 match lengths, 3 all three
    FlatCodes { which: u8, first: u8, k: u8, per: u8 },
    /// > 1024 Huffman-friendly literals (the block gets a NEW Huffman table) followed by thousands of
    /// length-3 matches at offsets beyond 8 MiB (23 extra bits + code): each costs more bits than the three bytes it
    /// stands for, so the block as a whole does not shrink and is stored raw - after its literals
    /// were already entropy-coded. Needs > 8 MiB of history (offsets are clamped to what exists otherwise)
    CostlyRaw { lits: u32, alpha: u8, n: u16 },
}

#[derive(Clone, Debug, Serialize, Deserialize)]
pub struct ParseCase {
    pub window_log: u8,
    /// added to 2^window_log (modulo 2^window_log): matcher windows need not be powers of two
    #[serde(default)]
    pub window_extra: u32,
    pub blocks: Vec<Shape>,
    pub seed: u32,
    pub uncompressed_level: bool,
}

#[derive(Clone, Debug, Serialize, Deserialize)]
pub struct RefParseCase {
    pub data: DataSpec,
    pub level: i32,
    pub wlog: u32,
}

/// A matcher that knows nothing but what the compressor hands it: it keeps the committed spaces as
/// its history and finds matches in them by itself (greedy, hash of `min_match` bytes).
#[derive(Clone, Debug, Serialize, Deserialize)]
pub struct TrackingCase {
    pub data: DataSpec,
    /// length of the spaces it hands out (capped by the window and 128 KiB)
    pub space: u32,
    pub window_log: u8,
    pub window_extra: u32,
    /// 3..=6
    pub min_match: u8,
    pub uncompressed_level: bool,
    /// frames compressed with the same compressor + matcher (reset in between)
    pub frames: u8,
    /// the matcher's window depends on the level it is reset with (the trait allows that:
    /// "may change after a call to reset with a different compression level"): 2^this bytes at
    /// level Uncompressed, the full window otherwise; the level alternates from frame to frame
    #[serde(default)]
    pub uncompressed_window_log: Option<u8>,
}

#[derive(Clone, Debug, Serialize, Deserialize)]
pub enum Case {
    Generated(ParseCase),
    Reference(RefParseCase),
    Tracking(TrackingCase),
}

pub struct TrackingMatcher {
    /// (window at level Uncompressed, window otherwise) when the window depends on the level
    by_level: Option<(usize, usize)>,
    window: usize,
    space: usize,
    min_match: usize,
    /// everything committed since the last reset
    hist: Vec<u8>,
    /// start of the last committed space inside `hist`
    cur: usize,
    last: Vec<u8>,
    /// hash of min_match bytes -> most recent position in `hist`
    table: std::collections::HashMap<u64, usize>,
    /// positions below this are already in the table
    indexed: usize,
    pub stats: std::rc::Rc<std::cell::Cell<(u64, u64, u64)>>, // (matches, matches reaching into an earlier space, skipped spaces)
}

impl TrackingMatcher {
    fn key(&self, at: usize) -> Option<u64> {
        if at + self.min_match > self.hist.len() {
            return None;
        }
        let mut k = 0u64;
        for b in &self.hist[at..at + self.min_match] {
            k = (k << 8) | *b as u64;
        }
        Some(k)
    }
    fn index_upto(&mut self, end: usize) {
        while self.indexed < end {
            if let Some(k) = self.key(self.indexed) {
                self.table.insert(k, self.indexed);
            }
            self.indexed += 1;
        }
    }
}

impl Matcher for TrackingMatcher {
    fn get_next_space(&mut self) -> Vec<u8> {
        vec![0; self.space]
    }
    fn get_last_space(&mut self) -> &[u8] {
        &self.last
    }
    fn commit_space(&mut self, space: Vec<u8>) {
        self.cur = self.hist.len();
        self.hist.extend_from_slice(&space);
        self.last = space;
    }
    fn skip_matching(&mut self) {
        let mut st = self.stats.get();
        st.2 += 1;
        self.stats.set(st);
        // the skipped data stays part of the history (it is part of the stream)
        let end = self.hist.len();
        self.index_upto(end.saturating_sub(self.min_match - 1));
    }
    fn start_matching(&mut self, mut handle_sequence: impl for<'a> FnMut(Sequence<'a>)) {
        let end = self.hist.len();
        let mut pos = self.cur;
        let mut lit_start = self.cur;
        let mut st = self.stats.get();
        while pos < end {
            self.index_upto(pos);
            let cand = self.key(pos).and_then(|k| self.table.get(&k).copied());
            let mut taken = false;
            if let Some(c) = cand {
                let off = pos - c;
                if off >= 1 && off <= self.window {
                    let mut ml = 0usize;
                    while pos + ml < end && self.hist[c + ml] == self.hist[pos + ml] {
                        ml += 1;
                    }
                    if ml >= self.min_match.max(3) {
                        handle_sequence(Sequence::Triple { literals: &self.last[lit_start - self.cur..pos - self.cur], offset: off, match_len: ml });
                        st.0 += 1;
                        if c < self.cur {
                            st.1 += 1;
                        }
                        pos += ml;
                        lit_start = pos;
                        taken = true;
                    }
                }
            }
            if !taken {
                pos += 1;
            }
        }
        if lit_start < end {
            handle_sequence(Sequence::Literals { literals: &self.last[lit_start - self.cur..] });
        }
        self.stats.set(st);
        self.index_upto(end.saturating_sub(self.min_match - 1));
    }
    fn reset(&mut self, level: CompressionLevel) {
        if let Some((unc, other)) = self.by_level {
            self.window = if matches!(level, CompressionLevel::Uncompressed) { unc } else { other };
        }
        self.hist.clear();
        self.table.clear();
        self.last.clear();
        self.cur = 0;
        self.indexed = 0;
    }
    fn window_size(&self) -> u64 {
        self.window as u64
    }
}

fn check_tracking(tc: &TrackingCase, ctx: &mut CaseCtx) -> CaseResult {
    let data = tc.data.render();
    let window = ((1u64 << tc.window_log) + (tc.window_extra as u64 % (1u64 << tc.window_log))) as usize;
    let by_level = tc.uncompressed_window_log.map(|l| ((1usize << l.clamp(10, 16)).min(window), window));
    // spaces never exceed the smallest window the matcher will advertise (Block_Maximum_Size)
    let space = (tc.space as usize).clamp(1, BLK).min(by_level.map(|b| b.0).unwrap_or(window));
    let stats = std::rc::Rc::new(std::cell::Cell::new((0u64, 0u64, 0u64)));
    // a matcher that configures itself in reset() starts out with its smallest window
    let matcher = TrackingMatcher { by_level, window: by_level.map(|b| b.0).unwrap_or(window), space, min_match: tc.min_match.clamp(3, 6) as usize, hist: vec![], cur: 0, last: vec![], table: Default::default(), indexed: 0, stats: stats.clone() };
    let level_of = |f: u8| {
        let unc = if by_level.is_some() { tc.uncompressed_level ^ (f % 2 == 1) } else { tc.uncompressed_level };
        if unc { CompressionLevel::Uncompressed } else { CompressionLevel::Fastest }
    };
    let mut comp: FrameCompressor<&[u8], Vec<u8>, TrackingMatcher> = FrameCompressor::new_with_matcher(matcher, level_of(0));
    let mut parts: Vec<Vec<u8>> = vec![];
    let nframes = if by_level.is_some() { tc.frames.clamp(2, 3) } else { tc.frames.clamp(1, 3) };
    for f in 0..nframes {
        // later frames of the same compressor see the data from a different starting point
        let from = (f as usize * 1021) % data.len().max(1);
        let input = &data[from.min(data.len())..];
        let level = level_of(f);
        let window_now = match by_level {
            Some((unc, other)) => if matches!(level, CompressionLevel::Uncompressed) { unc } else { other },
            None => window,
        };
        comp.set_compression_level(level);
        comp.set_source(input);
        comp.set_drain(Vec::new());
        comp.compress();
        let out = comp.take_drain().unwrap();
        verify_frame(input, &out, &format!("history-keeping matcher (window {window_now}, spaces of {space}, frame #{f})"))?;
        let info = frame::walk(&out, &WalkOpts::default()).map_err(|e| Failure::new("malformed_frame", format!("strict walker rejects the frame: {e}; frame {}", hexhead(&out))))?;
        ensure!(info.header.window_size >= window_now as u64, "window_too_small", "frame #{f} declares window {} but the matcher advertises {window_now} at this level", info.header.window_size);
        for b in &info.blocks {
            ctx.feat(match b.btype {
                0 => "tracking:block_raw",
                1 => "tracking:block_rle",
                _ => "tracking:block_compressed",
            });
        }
        parts.push(out);
    }
    ctx.feat_if(by_level.is_some(), "tracking:window_depends_on_the_level_(alternating_levels)");
    let st = stats.get();
    ctx.feat("script:history_keeping_matcher");
    ctx.feat_if(st.1 > 0, "tracking:match_reaches_into_an_earlier_space");
    ctx.feat_if(st.2 > 0, "tracking:space_skipped_by_the_compressor");
    ctx.feat_if(tc.frames > 1, "tracking:matcher_reused_after_reset");
    ctx.feat_if(tc.uncompressed_level, "level:uncompressed");
    ctx.nontrivial = st.1 > 0;
    let refs: Vec<&[u8]> = parts.iter().map(|p| p.as_slice()).collect();
    ctx.set_hash_bytes(&refs);
    Ok(())
}

fn shape_strategy() -> impl Strategy<Value = Shape> {
    prop_oneof![
        6 => (1u16..=60).prop_map(|n| Shape::Generic { n }),
        2 => (prop_oneof![3 => 1u32..=300, 2 => 32_000u32..=33_000, 2 => 32_500u32..=43_690, 4 => prop::sample::select(vec![127u32, 128, 129, 0x7EFF, 0x7F00, 0x7F01, 0x7FFF, 0x8000, 0x8001])], 0u8..=2).prop_map(|(n, extra)| Shape::Many { n, extra }),
        2 => (1u16..=30).prop_map(|n| Shape::AllLlZero { n }),
        2 => (1u16..=30).prop_map(|n| Shape::AllMlThree { n }),
        2 => (1u8..=40).prop_map(|n| Shape::CodeEdges { n }),
        1 => prop_oneof![60_000u32..=131_069, Just(131_069u32), Just(65_536u32), Just(65_535u32)].prop_map(|ll| Shape::HugeLl { ll }),
        1 => prop_oneof![60_000u32..=131_072, Just(131_072u32), Just(65_539u32), Just(65_538u32)].prop_map(|ml| Shape::HugeMl { ml }),
        2 => (1025u32..=9000).prop_map(|n| Shape::OneValueLiterals { n }),
        2 => (prop_oneof![1020u32..=1030, 16_380u32..=16_390, 1025u32..=60_000], 2u8..=200).prop_map(|(n, alpha)| Shape::ThresholdLiterals { n, alpha }),
        2 => (1100u32..=131_000).prop_map(|n| Shape::Incompressible { n }),
        2 => (1u8..=20).prop_map(|n| Shape::FarOffsets { n }),
        3 => (0u8..=3, 0u8..=5, 6u8..=16, 2u8..=40).prop_map(|(which, first, k, per)| Shape::FlatCodes { which, first, k, per }),
    ]
}

pub fn flat_codes_strategy() -> impl Strategy<Value = Case> {
    (10u8..=20, any::<u32>(), prop::collection::vec((0u8..=3, 0u8..=5, 6u8..=16, 2u8..=60).prop_map(|(which, first, k, per)| Shape::FlatCodes { which, first, k, per }), 1..=3), any::<u32>())
        .prop_map(|(window_log, window_extra, blocks, seed)| Case::Generated(ParseCase { window_log, window_extra, blocks, seed, uncompressed_level: false }))
}

fn case_strategy(tier: Tier) -> impl Strategy<Value = Case> {
    let maxb = if tier == Tier::Quick { 6 } else { 40 };
    prop_oneof![
        100 => (10u8..=23, prop_oneof![2 => Just(0u32), 3 => any::<u32>()], prop::collection::vec(shape_strategy(), 1..=maxb), any::<u32>(), prop::bool::weighted(0.08))
            .prop_map(|(window_log, window_extra, blocks, seed, uncompressed_level)| Case::Generated(ParseCase { window_log, window_extra, blocks, seed, uncompressed_level })),
        // Huffman table T1 (compressed block) -> new table T2 in a block that ends up stored raw ->
        // literals that fit T2: what the compressor remembers across a raw fallback
        1 => (Just(23u8), Just(1u32 << 22), 2u8..=40, 1100u32..=6000, 4000u16..=12_000, prop::collection::vec(shape_strategy(), 0..=2), any::<u32>()).prop_map(|(window_log, window_extra, alpha, lits, n, tail, seed)| {
            let mut blocks = vec![Shape::HugeLl { ll: 131_069 }; 67];
            blocks.extend([
                Shape::ThresholdLiterals { n: lits, alpha },
                Shape::CostlyRaw { lits: lits + 700, alpha: alpha.saturating_add(3), n },
                Shape::ThresholdLiterals { n: lits + 300, alpha: alpha.saturating_add(3) },
            ]);
            blocks.extend(tail);
            Case::Generated(ParseCase { window_log, window_extra, blocks, seed, uncompressed_level: false })
        }),
        60 => (
            data_strategy(120_000),
            prop_oneof![3 => 16u32..=300, 3 => 300u32..=5000, 1 => Just(65_536u32), 1 => Just(131_072u32), 1 => 1u32..=15],
            10u8..=19,
            prop_oneof![2 => Just(0u32), 3 => any::<u32>()],
            3u8..=6,
            prop::bool::weighted(0.08),
            prop_oneof![4 => Just(1u8), 1 => 2u8..=3],
            prop::option::weighted(0.25, 10u8..=13),
        )
            .prop_map(|(data, space, window_log, window_extra, min_match, uncompressed_level, frames, uncompressed_window_log)| {
                // with a level-dependent window both levels take turns: start with either
                let uncompressed_level = if uncompressed_window_log.is_some() { window_extra % 2 == 0 } else { uncompressed_level };
                Case::Tracking(TrackingCase { data, space, window_log, window_extra, min_match, uncompressed_level, frames, uncompressed_window_log })
            }),
        20 => (data_strategy(400_000), 1i32..=19, prop_oneof![Just(0u32), 10u32..=20]).prop_map(|(mut data, level, wlog)| {
            if data.len % (BLK as u32) < 16 {
                data.len += 16;
            }
            Case::Reference(RefParseCase { data, level, wlog })
        }),
    ]
}

/// Render the generated parse: data and scripted sequences, valid by construction.
pub fn render(pc: &ParseCase) -> Script {
    let window = (1u64 << pc.window_log) + (pc.window_extra as u64 % (1u64 << pc.window_log));
    let mut r = Rng(pc.seed as u64);
    let mut data: Vec<u8> = vec![];
    let mut blocks = vec![];
    let ll_edges: Vec<u32> = LL_TABLE.iter().flat_map(|(b, bits)| [*b, b + (1u32 << bits) - 1]).filter(|&v| v <= 3000).collect();
    let ml_edges: Vec<u32> = ML_TABLE.iter().flat_map(|(b, bits)| [*b, b + (1u32 << bits) - 1]).filter(|&v| v <= 3000).collect();
    for shape in &pc.blocks {
        let start = data.len();
        let mut seqs: Vec<Seq> = vec![];
        // Block_Maximum_Size = min(window, 128 KiB): a well-behaved matcher does not hand out
        // spaces larger than the window it advertises
        let mut budget = BLK.min(window as usize);
        // helpers
        let push_lits = |data: &mut Vec<u8>, n: usize, r: &mut Rng, alpha: u64| {
            for _ in 0..n {
                data.push(r.below(alpha.max(1)) as u8);
            }
        };
        let mut add = |data: &mut Vec<u8>, r: &mut Rng, mut ll: usize, mut ml: usize, off_sel: u64, alpha: u64, seqs: &mut Vec<Seq>, budget: &mut usize| -> bool {
            if data.is_empty() && ll == 0 {
                ll = 1;
            }
            if ll > 131_071 {
                ll = 131_071;
            }
            if *budget < ll + 3 {
                return false;
            }
            ml = ml.clamp(3, 131_074).min(*budget - ll);
            if ml < 3 {
                return false;
            }
            push_lits(data, ll, r, alpha);
            let reach = (data.len() as u64).min(window) as usize;
            let off_sel = if off_sel == u64::MAX { r.next() % 6 } else { off_sel };
            let off = if off_sel >= 1000 {
                (off_sel - 1000) as usize
            } else {
                match off_sel % 6 {
                0 => 1 + r.below(reach as u64) as usize,
                1 => 1 + r.below(8.min(reach) as u64) as usize,
                2 => reach,
                3 => reach - r.below(4.min(reach) as u64) as usize,
                4 => (1usize << r.below(20)).min(reach),
                _ => 1 + r.below(reach as u64) as usize,
                }
            }
            .clamp(1, reach);
            let at = data.len();
            for k in 0..ml {
                let b = data[at - off + k];
                data.push(b);
            }
            seqs.push(Seq { ll: ll as u32, ml: ml as u32, off: off as u32 });
            *budget -= ll + ml;
            true
        };
        match shape {
            Shape::Generic { n } => {
                for _ in 0..*n {
                    let ll = match r.below(5) {
                        0 => 0,
                        1 => r.below(16),
                        2 => r.below(70),
                        3 => r.below(400),
                        _ => r.below(3000),
                    } as usize;
                    let ml = match r.below(4) {
                        0 => 3 + r.below(2),
                        1 => 3 + r.below(40),
                        2 => 3 + r.below(300),
                        _ => 3 + r.below(5000),
                    } as usize;
                    let alpha = [2u64, 4, 16, 64, 256][r.below(5) as usize];
                    if !add(&mut data, &mut r, ll, ml, u64::MAX, alpha, &mut seqs, &mut budget) {
                        break;
                    }
                }
            }
            Shape::Many { n, extra } => {
                for _ in 0..*n {
                    if !add(&mut data, &mut r, 0, 3 + *extra as usize, 1, 4, &mut seqs, &mut budget) {
                        break;
                    }
                }
            }
            Shape::AllLlZero { n } => {
                for _ in 0..*n {
                    let ml = 3 + r.below(40) as usize;
                    if !add(&mut data, &mut r, 0, ml, u64::MAX, 4, &mut seqs, &mut budget) {
                        break;
                    }
                }
            }
            Shape::AllMlThree { n } => {
                for _ in 0..*n {
                    let ll = r.below(30) as usize;
                    if !add(&mut data, &mut r, ll, 3, u64::MAX, 16, &mut seqs, &mut budget) {
                        break;
                    }
                }
            }
            Shape::CodeEdges { n } => {
                for _ in 0..*n {
                    let ll = ll_edges[r.below(ll_edges.len() as u64) as usize] as usize;
                    let ml = ml_edges[r.below(ml_edges.len() as u64) as usize] as usize;
                    if !add(&mut data, &mut r, ll, ml, u64::MAX, 64, &mut seqs, &mut budget) {
                        break;
                    }
                }
            }
            Shape::HugeLl { ll } => {
                let cap = budget - 3;
                add(&mut data, &mut r, (*ll as usize).min(cap), 3, u64::MAX, 256, &mut seqs, &mut budget);
            }
            Shape::HugeMl { ml } => {
                add(&mut data, &mut r, 0, *ml as usize, 1, 4, &mut seqs, &mut budget);
            }
            Shape::OneValueLiterals { n } => {
                // a match first (so the block is not a single byte value), then n equal literals as the block's tail
                add(&mut data, &mut r, 0, 8, 0, 256, &mut seqs, &mut budget);
                let n = (*n as usize).min(budget);
                data.resize(data.len() + n, 0x61);
                budget -= n;
            }
            Shape::ThresholdLiterals { n, alpha } => {
                let n = (*n as usize).min(budget.saturating_sub(8));
                add(&mut data, &mut r, n, 5, u64::MAX, *alpha as u64, &mut seqs, &mut budget);
            }
            Shape::CostlyRaw { lits, alpha, n } => {
                let l = (*lits as usize).min(budget.saturating_sub(8));
                add(&mut data, &mut r, l, 3, 1000 + (1 << 23) + 5, *alpha as u64, &mut seqs, &mut budget);
                for _ in 0..*n {
                    let far = 1000 + (1 << 23) + r.below(200_000);
                    if !add(&mut data, &mut r, 0, 3, far, 4, &mut seqs, &mut budget) {
                        break;
                    }
                }
            }
            Shape::Incompressible { n } => {
                let n = (*n as usize).min(budget.saturating_sub(8));
                add(&mut data, &mut r, n, 3, u64::MAX, 256, &mut seqs, &mut budget);
            }
            Shape::FlatCodes { which, first, k, per } => {
                // history for the offsets: one literal run first
                add(&mut data, &mut r, 6000.min(budget.saturating_sub(8)), 4, 1, 64, &mut seqs, &mut budget);
                let k = (*k as u64).max(2);
                let n = k * (*per as u64).max(1) + 1;
                for i in 0..n {
                    let rare = i + 1 == n;
                    // the code this sequence contributes to each flat histogram (the last one: a code outside the set)
                    let c = if rare { k + 1 } else { i % k };
                    let flat_of = *which == 0 || *which == 3;
                    let flat_ll = *which == 1 || *which == 3;
                    let flat_ml = *which == 2 || *which == 3;
                    let ll = if flat_ll { LL_TABLE[((*first as u64 + c) % 25) as usize].0 as usize } else { r.below(3) as usize };
                    let ml = if flat_ml { ML_TABLE[((*first as u64 + c) % 40) as usize].0 as usize } else { 3 + r.below(3) as usize };
                    let off_sel = if flat_of {
                        // offset value = offset + 3 in [2^code, 2^(code+1))
                        let code = 2 + (*first as u64 % 4) + c;
                        1000 + ((1u64 << code) - 3 + r.below(1u64 << code)).max(1)
                    } else {
                        1
                    };
                    if !add(&mut data, &mut r, ll, ml, off_sel, 4, &mut seqs, &mut budget) {
                        break;
                    }
                }
            }
            Shape::FarOffsets { n } => {
                for _ in 0..*n {
                    let ll = r.below(40) as usize;
                    let ml = 3 + r.below(60) as usize;
                    let sel = 2 + r.below(2);
                    if !add(&mut data, &mut r, ll, ml, sel, 16, &mut seqs, &mut budget) {
                        break;
                    }
                }
            }
        }
        // occasional literal tail
        if r.below(3) == 0 {
            let tail = (r.below(200) as usize).min(budget);
            // (after a one-valued literal run the tail keeps that value, so the block's literals stay single-valued)
            let one_valued = matches!(shape, Shape::OneValueLiterals { .. });
            for _ in 0..tail {
                data.push(if one_valued { 0x61 } else { r.below(16) as u8 });
            }
        }
        let len = data.len() - start;
        if len == 0 {
            continue;
        }
        blocks.push(BlockScript { len, seqs });
    }
    if blocks.is_empty() {
        data.push(7);
        blocks.push(BlockScript { len: 1, seqs: vec![] });
    }
    Script { data, blocks, window }
}

fn reference_script(rc: &RefParseCase) -> Option<Script> {
    let data = rc.data.render();
    let raw = refz::generate_sequences(&data, rc.level, rc.wlog, 3).ok()?;
    let mut blocks = vec![];
    let mut cur: Vec<Seq> = vec![];
    let mut len = 0usize;
    let mut max_off = 0u32;
    for s in &raw {
        if s.offset == 0 && s.match_len == 0 {
            len += s.lit_len as usize;
            if len > 0 {
                blocks.push(BlockScript { len, seqs: std::mem::take(&mut cur) });
            }
            len = 0;
            continue;
        }
        if s.lit_len > 131_071 || s.match_len > 131_074 {
            return None;
        }
        len += (s.lit_len + s.match_len) as usize;
        max_off = max_off.max(s.offset);
        cur.push(Seq { ll: s.lit_len, ml: s.match_len, off: s.offset });
    }
    let total: usize = blocks.iter().map(|b| b.len).sum();
    if total != data.len() || blocks.is_empty() || blocks.iter().any(|b| b.len > BLK) {
        return None;
    }
    // the advertised window covers every offset and every block (Block_Maximum_Size = min(window, 128 KiB))
    let max_block = blocks.iter().map(|b| b.len).max().unwrap_or(0) as u64;
    let window = (max_off as u64).max(max_block).max(1024).next_power_of_two();
    Some(Script { data, blocks, window })
}

pub fn check(case: &Case, ctx: &mut CaseCtx) -> CaseResult {
    if let Case::Tracking(tc) = case {
        return check_tracking(tc, ctx);
    }
    let (script, uncompressed) = match case {
        Case::Generated(pc) => (render(pc), pc.uncompressed_level),
        Case::Reference(rc) => match reference_script(rc) {
            Some(s) => (s, false),
            None => {
                ctx.feat("skipped:no_reference_parse");
                return Ok(());
            }
        },
        Case::Tracking(_) => unreachable!(),
    };
    let script = std::rc::Rc::new(script);
    let desync = std::rc::Rc::new(std::cell::Cell::new(None));
    let matcher = ScriptedMatcher { script: script.clone(), idx: 0, last: vec![], desync: desync.clone() };
    let level = if uncompressed { CompressionLevel::Uncompressed } else { CompressionLevel::Fastest };
    let mut comp: FrameCompressor<&[u8], Vec<u8>, ScriptedMatcher> = FrameCompressor::new_with_matcher(matcher, level);
    comp.set_source(&script.data[..]);
    comp.set_drain(Vec::new());
    comp.compress();
    let out = comp.take_drain().unwrap();
    if let Some((i, want, got)) = desync.get() {
        return Err(Failure::new("matcher_protocol_broken", format!("the compressor asked for the sequences of space #{i} ({want} bytes in the script) after committing a space of {got} bytes: an earlier space was neither committed + skipped nor matched")));
    }
    verify_frame(&script.data, &out, "scripted matcher")?;
    // the emitted sequences are the scripted ones (for blocks stored compressed)
    let info = frame::walk(&out, &WalkOpts::default()).map_err(|e| Failure::new("malformed_frame", format!("strict walker rejects the frame: {e}; frame {}", hexhead(&out))))?;
    ensure!(info.header.window_size >= script.window, "window_too_small", "frame declares window {} but the matcher advertised {}", info.header.window_size, script.window);
    let mut outside_builtin = false;
    if !uncompressed {
        let data_blocks: Vec<&frame::Block> = info.blocks.iter().filter(|b| b.regen > 0).collect();
        ensure!(data_blocks.len() == script.blocks.len(), "block_count", "{} non-empty blocks emitted for {} scripted blocks", data_blocks.len(), script.blocks.len());
        for (i, (b, s)) in data_blocks.iter().zip(script.blocks.iter()).enumerate() {
            ensure!(b.regen == s.len, "block_size", "block #{i} regenerates {} bytes, scripted {}", b.regen, s.len);
            if b.btype == 2 {
                let got: Vec<Seq> = b.seq.as_ref().map(|q| q.seqs.iter().map(|x| Seq { ll: x.ll, ml: x.ml, off: x.offset }).collect()).unwrap_or_default();
                ensure!(got == s.seqs, "sequences_differ", "block #{i}: emitted {} sequences, scripted {} (first difference at #{})", got.len(), s.seqs.len(), got.iter().zip(s.seqs.iter()).take_while(|(a, b)| a == b).count());
                ctx.feat("block:compressed");
                if let Some(q) = &b.seq {
                    ctx.feat_if(q.modes[0] == 2 && q.logs[0] == 9, "tables:ll_description_at_the_limit_(log_9)");
                    ctx.feat_if(q.modes[1] == 2 && q.logs[1] == 8, "tables:of_description_at_the_limit_(log_8)");
                    ctx.feat_if(q.modes[2] == 2 && q.logs[2] == 9, "tables:ml_description_at_the_limit_(log_9)");
                }
            } else {
                ctx.feat(if b.btype == 0 { "block:raw_fallback" } else { "block:rle" });
                ctx.feat_if(b.btype == 0 && s.seqs.len() > 1000 && i + 1 < data_blocks.len() && data_blocks[i + 1].lit.as_ref().map(|l| l.ltype >= 2).unwrap_or(false), "block:raw_fallback_after_entropy_coding_then_huffman_literals");
                ctx.feat_if(b.btype == 0 && i + 1 < data_blocks.len() && data_blocks[i + 1].lit.as_ref().map(|l| l.ltype == 3).unwrap_or(false), "block:treeless_literals_right_after_a_raw_block");
            }
            let n = s.seqs.len();
            ctx.feat_if(n >= 0x7F00, "parse:>=32512_sequences");
            ctx.feat_if(matches!(n, 127 | 128 | 0x7EFF | 0x7F00 | 0x7F01), "parse:sequence_count_exactly_at_a_count_format_boundary");
            ctx.feat_if(n > 0 && s.seqs.iter().all(|q| q.ll == 0), "parse:all_ll_zero");
            ctx.feat_if(n > 0 && s.seqs.iter().all(|q| q.ml == 3), "parse:all_ml_three");
            ctx.feat_if(s.seqs.iter().any(|q| q.off as usize > BLK), "parse:offset>128K");
            ctx.feat_if(s.seqs.iter().any(|q| q.ll >= 65_536), "parse:ll>=64K");
            ctx.feat_if(s.seqs.iter().any(|q| q.ml >= 65_539), "parse:ml>=64K");
            if s.seqs.iter().any(|q| q.ml <= 4 || q.off as usize > BLK) || n > 26_214 {
                outside_builtin = true;
            }
        }
    }
    ctx.feat(match case {
        Case::Generated(_) => "script:generated",
        Case::Reference(_) => "script:reference_parse",
        Case::Tracking(_) => unreachable!(),
    });
    ctx.feat_if(uncompressed, "level:uncompressed");
    ctx.nontrivial = outside_builtin;
    ctx.set_hash_bytes(&[&out]);
    if ctx.nontrivial && out.len() < 90 {
        ctx.sample = Some(json!({"input_len": script.data.len(), "blocks": script.blocks.iter().map(|b| json!({"len": b.len, "seqs": b.seqs.iter().map(|s| (s.ll, s.ml, s.off)).collect::<Vec<_>>()})).collect::<Vec<_>>(), "frame_hex": hexhead(&out)}));
    }
    Ok(())
}

pub fn run(eng: &Engine) {
    eng.set_rule("a scripted matcher implementing the public Matcher trait replays a generated parse that is valid by construction (data and parse generated together: windows 2^10..2^23 spanning many blocks, block shapes biased to the interface's corners: up to one sequence per 3 bytes (>= 32512 / 32768 per block), all literal lengths 0, all match lengths 3, lengths at every code boundary, ll up to 131069, ml up to 131072, > 1024 equal literals, literals around the 1 KiB / 16 KiB thresholds, incompressible blocks followed by Huffman-friendly ones, offsets at the far edge of the window) or a parse produced by ZSTD_generateSequences (levels 1..19, min-match 3); a third family is a history-keeping matcher that knows only what the compressor commits to it (spaces of 1 B..128 KiB, windows 2^10..2^20 incl. non-powers of two, min-match 3..6, greedy hash search over its own copy of the committed spaces, reused for up to 3 frames, optionally with a window that depends on the level passed to reset() while the levels alternate) - its matches are true for the stream exactly if the compressor hands it every byte of the stream, also for blocks it stores raw or RLE; oracle: compress() returns, libzstd and this crate decode the frame to the input, the strict walker finds exactly the scripted sequences in every block stored compressed; non-trivial = the parse lies outside what the built-in matcher can emit (a match of length 3 or 4, an offset > 128 KiB, or > 26214 sequences in a block), or a history-keeping matcher whose match reaches into an earlier space; distinct by frame hash");
    eng.assume("matcher spaces have a length >= 1; the matcher never lies about its data");
    let tier = eng.tier;
    let n = eng.tier.pick(30_000, 500_000);
    eng.run_stage("scripted_parses", n, || case_strategy(tier), check);
}

pub fn replay(eng: &Engine, stage: &str, case: &Value) -> CaseResult {
    match stage {
        "scripted_parses" => eng.replay_value(stage, case, check),
        _ => Err(Failure::new("machinery", format!("unknown stage {stage}"))),
    }
}
