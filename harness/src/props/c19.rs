//! C19 Command-line compress then decompress restores the file byte for byte.
//! The real ruzstd-cli binary (built from /repo by scripts/extra-C19.sh) runs in a private directory.

use crate::engine::{CaseCtx, CaseResult, Engine, Failure, Tier, VERIF_ROOT};
use crate::gen::data::{data_strategy, DataSpec};
use crate::{ensure, fail, refz};
use proptest::prelude::*;
use serde::{Deserialize, Serialize};
use serde_json::{json, Value};
use std::path::{Path, PathBuf};
use std::process::Command;
use std::sync::atomic::{AtomicU64, Ordering};

#[derive(Clone, Copy, Debug, Serialize, Deserialize, PartialEq)]
pub enum Level {
    Absent,
    L(u8),
}

#[derive(Clone, Copy, Debug, Serialize, Deserialize, PartialEq)]
pub enum Scenario {
    RoundTrip,
    MissingInput,
    OutputDirMissing,
    GarbageArchive,
    TruncatedArchive(u16),
}

#[derive(Clone, Debug, Serialize, Deserialize)]
pub struct Case {
    pub data: DataSpec,
    pub name: u8,
    pub level: Level,
    pub explicit_out: bool,
    pub scenario: Scenario,
    /// files of other (longer) content already sit where the archive and the restored file go
    #[serde(default)]
    pub stale_outputs: bool,
    /// (round trip, implemented level) the content reaches the tool through a named pipe at the
    /// input path instead of a regular file: same bytes, but no size to be known in advance
    #[serde(default)]
    pub via_fifo: bool,
    /// file with holes, as disk images and database files have them: the content is padded to a
    /// multiple of the chunk size (4 KiB / 64 KiB / 128 KiB / 1 MiB) and `count` whole chunks of
    /// zeros are put at (where) 0 the end, 1 the start, 2 the middle, 3 everywhere
    #[serde(default)]
    pub holes: Option<(u8, u8, u8)>,
}

static COUNTER: AtomicU64 = AtomicU64::new(0);

fn cli() -> PathBuf {
    PathBuf::from(VERIF_ROOT).join("target/cli/release/ruzstd-cli")
}

struct TempDir(PathBuf);
impl Drop for TempDir {
    fn drop(&mut self) {
        let _ = std::fs::remove_dir_all(&self.0);
    }
}

struct Run {
    code: Option<i32>,
    panicked: bool,
    stderr: String,
}

fn run(dir: &Path, args: &[&std::ffi::OsStr]) -> Result<Run, Failure> {
    let out = Command::new(cli())
        .current_dir(dir)
        .args(args)
        .env("NO_COLOR", "1")
        .output()
        .map_err(|e| Failure::new("machinery", format!("cannot run the CLI: {e}")))?;
    let stderr = String::from_utf8_lossy(&out.stderr).to_string();
    Ok(Run { code: out.status.code(), panicked: stderr.contains("panicked at") || out.status.code() == Some(101), stderr })
}

fn tail(s: &str) -> String {
    let t: String = s.chars().rev().take(300).collect();
    t.chars().rev().collect::<String>().replace('\n', " | ")
}

pub fn check(case: &Case, ctx: &mut CaseCtx) -> CaseResult {
    let n = COUNTER.fetch_add(1, Ordering::Relaxed);
    let dir = PathBuf::from(VERIF_ROOT).join(format!("target/c19/tmp-{}-{n}", std::process::id()));
    std::fs::create_dir_all(&dir).map_err(|e| Failure::new("machinery", format!("{e}")))?;
    let _guard = TempDir(dir.clone());
    // names: ASCII with dots / spaces / no extension / hidden, valid non-ASCII UTF-8, and bytes that
    // are not UTF-8 at all (legal in a Unix file name)
    const NAMES: [&[u8]; 8] = [b"a.txt", b"noext", b"two.dots.tar", b"with space.bin", b"UPPER.DAT", b".hidden", b"r\xe9sum\xe9.txt", "\u{fc}n\u{ef}.d\u{e4}t".as_bytes()];
    use std::os::unix::ffi::{OsStrExt, OsStringExt};
    let name_bytes: &[u8] = NAMES[(case.name % 8) as usize];
    let name = std::ffi::OsString::from_vec(name_bytes.to_vec());
    let name_shown = String::from_utf8_lossy(name_bytes).to_string();
    ctx.feat_if(std::str::from_utf8(name_bytes).is_err(), "name:not_utf8");
    ctx.feat_if(std::str::from_utf8(name_bytes).is_ok() && !name_bytes.is_ascii(), "name:non_ascii_utf8");
    let mut data = case.data.render();
    if let Some((place, chunk, count)) = case.holes {
        let c = [4usize << 10, 64 << 10, 128 << 10, 1 << 20][(chunk % 4) as usize];
        let n = data.len().div_ceil(c).max(1) * c;
        let mut k = 0usize;
        while data.len() < n {
            data.push((k as u8).wrapping_mul(31) ^ 0x55);
            k += 1;
        }
        let chunks = n / c;
        let count = (count as usize).clamp(1, chunks);
        let range = match place % 4 {
            0 => (chunks - count) * c..n,
            1 => 0..count * c,
            2 => (chunks - count) / 2 * c..((chunks - count) / 2 + count) * c,
            _ => 0..n,
        };
        data[range].fill(0);
        ctx.feat(["content:zero_chunks_at_the_end_(size_a_multiple_of_the_chunk)", "content:zero_chunks_at_the_start", "content:zero_chunks_in_the_middle", "content:all_zero_(size_a_multiple_of_the_chunk)"][(place % 4) as usize]);
    }
    let input = dir.join(&name);
    let fifo = case.via_fifo && case.scenario == Scenario::RoundTrip && matches!(case.level, Level::Absent | Level::L(0) | Level::L(1));
    let mut feeder: Option<std::thread::JoinHandle<()>> = None;
    if fifo {
        let ok = Command::new("mkfifo").arg(&input).status().map(|s| s.success()).unwrap_or(false);
        if !ok {
            return Err(Failure::new("machinery", "mkfifo failed".to_string()));
        }
        let (path, bytes) = (input.clone(), data.clone());
        feeder = Some(std::thread::spawn(move || {
            use std::io::Write;
            // blocks until the tool opens the pipe for reading (or until the harness does, below)
            if let Ok(mut f) = std::fs::OpenOptions::new().write(true).open(&path) {
                let _ = f.write_all(&bytes);
            }
        }));
        ctx.feat("input:named_pipe");
    } else if case.scenario != Scenario::MissingInput {
        std::fs::write(&input, &data).map_err(|e| Failure::new("machinery", format!("{e}")))?;
    }
    let zst_name: std::ffi::OsString = if case.explicit_out {
        "out/../archive.z".into()
    } else {
        let mut v = name_bytes.to_vec();
        v.extend_from_slice(b".zst");
        std::ffi::OsString::from_vec(v)
    };
    let zst_shown = String::from_utf8_lossy(zst_name.as_bytes()).to_string();
    let zst_name_s = zst_shown.as_str();
    if case.explicit_out {
        std::fs::create_dir_all(dir.join("out")).ok();
    }
    let level_s;
    let mut args: Vec<&std::ffi::OsStr> = vec!["compress".as_ref(), name.as_os_str()];
    let out_missing_dir = "no/such/dir/x.zst";
    if case.scenario == Scenario::OutputDirMissing {
        args.push(out_missing_dir.as_ref());
    } else if case.explicit_out {
        args.push(zst_name.as_os_str());
    }
    if let Level::L(l) = case.level {
        level_s = l.to_string();
        args.push("-l".as_ref());
        args.push(level_s.as_ref());
    }
    let implemented = matches!(case.level, Level::Absent | Level::L(0) | Level::L(1));
    let zst_path = dir.join(&zst_name);
    let stale = case.stale_outputs && case.scenario == Scenario::RoundTrip && implemented;
    if stale {
        std::fs::write(&zst_path, vec![0xEEu8; data.len() + 1000]).map_err(|e| Failure::new("machinery", format!("{e}")))?;
    }
    let r = run(&dir, &args)?;
    if let Some(h) = feeder.take() {
        // release a feeder the tool never read from: open the read end ourselves, then let go
        {
            use std::os::unix::fs::OpenOptionsExt;
            let _ = std::fs::OpenOptions::new().read(true).custom_flags(0o4000).open(&input);
            let _ = h.join();
        }
        let _ = std::fs::remove_file(&input);
        if r.code != Some(0) && !r.panicked && !zst_path.exists() {
            // a tool may decline an input that is not a regular file - openly
            ctx.feat("input:named_pipe_declined_cleanly");
            ctx.set_hash_bytes(&[format!("{case:?}").as_bytes()]);
            return Ok(());
        }
        // the original is gone with the pipe: the decompress step below compares with `data`
        std::fs::write(dir.join("original.keep"), &data).ok();
    }
    ctx.feat(match case.level {
        Level::Absent => "level:absent",
        Level::L(0) => "level:0",
        Level::L(1) => "level:1",
        Level::L(2..=4) => "level:unimplemented_2-4",
        Level::L(_) => "level:out_of_range",
    });
    match case.scenario {
        Scenario::MissingInput | Scenario::OutputDirMissing => {
            ensure!(r.code != Some(0), "failure_not_reported", "compress with {:?} exits 0", case.scenario);
            let left = if case.scenario == Scenario::MissingInput { zst_path.exists() } else { false };
            ensure!(!(r.panicked && left), "panic_leaves_output", "compress with {:?} panicked and left {zst_name_s} behind: {}", case.scenario, tail(&r.stderr));
            ctx.feat("scenario:cannot_be_carried_out");
            ctx.nontrivial = false;
            ctx.set_hash_bytes(&[format!("{case:?}").as_bytes()]);
            return Ok(());
        }
        _ => {}
    }
    if !implemented {
        // an operation that cannot be carried out: failure through the exit status, and not
        // "panic + an output file that looks like a result"
        ensure!(r.code != Some(0), "failure_not_reported", "compress -l {:?} exits 0", case.level);
        ensure!(!(r.panicked && zst_path.exists()), "panic_leaves_output", "compress {:?}: the tool panicked (status {:?}) and left `{zst_name_s}` ({} bytes) behind: {}", case.level, r.code, std::fs::metadata(&zst_path).map(|m| m.len()).unwrap_or(0), tail(&r.stderr));
        ctx.feat("scenario:unsupported_level_refused");
        ctx.set_hash_bytes(&[format!("{case:?}").as_bytes()]);
        return Ok(());
    }
    // implemented levels and "no level given": must work
    let odd_name = std::str::from_utf8(name_bytes).is_err();
    if r.code != Some(0) {
        let left = zst_path.exists();
        if odd_name && !r.panicked && !(left && !stale) {
            // a tool may decline a name that is not UTF-8 - through its exit status, without a panic
            // and without leaving something that looks like a result: that is the property's own
            // rule for operations that cannot be carried out
            ctx.feat("name:not_utf8_declined_cleanly");
            ctx.set_hash_bytes(&[format!("{case:?}").as_bytes()]);
            return Ok(());
        }
        fail!(if r.panicked && left { "panic_leaves_output" } else { "compress_failed" }, "compress {:?} of a {}-byte file fails with status {:?} (panicked: {}, `{zst_name_s}` left behind: {left}): {}", case.level, data.len(), r.code, r.panicked, tail(&r.stderr));
    }
    let archive = std::fs::read(&zst_path).map_err(|e| Failure::new("output_missing", format!("compress exits 0 but `{zst_name_s}` cannot be read: {e}")))?;
    match refz::decompress(&archive, None, data.len() + 1) {
        Ok(d) => ensure!(d == data, "archive_wrong", "the reference decoder restores different data from the archive"),
        Err(e) => fail!("archive_invalid", "the archive written by the CLI is rejected by the reference decoder: {e}"),
    }
    // decompress
    let restored_name: std::ffi::OsString = if case.explicit_out { "restored.out".into() } else { Path::new(&zst_name).file_stem().unwrap().to_os_string() };
    let mut archive_name: std::ffi::OsString = zst_name.clone();
    match case.scenario {
        Scenario::GarbageArchive => {
            archive_name = "garbage.zst".into();
            std::fs::write(dir.join(&archive_name), b"this is not a zstd archive at all").ok();
        }
        Scenario::TruncatedArchive(k) => {
            archive_name = "cut.zst".into();
            let keep = archive.len().saturating_sub(1 + k as usize % archive.len().max(1));
            std::fs::write(dir.join(&archive_name), &archive[..keep]).ok();
        }
        _ => {}
    }
    if !case.explicit_out && case.scenario == Scenario::RoundTrip {
        // default output name = archive stem = the original name: move the original away first
        std::fs::rename(&input, dir.join("original.keep")).ok();
    }
    let mut dargs: Vec<&std::ffi::OsStr> = vec!["decompress".as_ref(), archive_name.as_os_str()];
    let explicit_restore = case.explicit_out || case.scenario != Scenario::RoundTrip;
    if explicit_restore {
        dargs.push("restored.out".as_ref());
    }
    let restored_path = dir.join(if explicit_restore { std::ffi::OsString::from("restored.out") } else { restored_name });
    if stale {
        std::fs::write(&restored_path, vec![0xDDu8; data.len() + 777]).map_err(|e| Failure::new("machinery", format!("{e}")))?;
        ctx.feat("paths:stale_longer_files_at_both_destinations");
    }
    let r2 = run(&dir, &dargs)?;
    match case.scenario {
        Scenario::RoundTrip => {
            if odd_name && r2.code != Some(0) && !r2.panicked {
                ctx.feat("name:not_utf8_declined_cleanly");
                ctx.set_hash_bytes(&[format!("{case:?}").as_bytes()]);
                return Ok(());
            }
            ensure!(r2.code == Some(0), "decompress_failed", "decompress of a fresh archive fails with status {:?}: {}", r2.code, tail(&r2.stderr));
            let back = std::fs::read(&restored_path).map_err(|e| Failure::new("output_missing", format!("decompress exits 0 but {} cannot be read: {e}", restored_path.display())))?;
            ensure!(back == data, "roundtrip_differs", "restored file differs from the original ({} vs {} bytes)", back.len(), data.len());
            ctx.feat("scenario:round_trip");
        }
        _ => {
            // garbage / truncated archive: never exit 0 with a wrong or partial file; no panic + leftover
            if r2.code == Some(0) {
                let back = std::fs::read(&restored_path).unwrap_or_default();
                ensure!(back == data, "partial_result_reported_as_success", "decompress of a damaged archive exits 0 with {} of {} bytes", back.len(), data.len());
            }
            ensure!(!(r2.panicked && restored_path.exists()), "panic_leaves_output", "decompress of a damaged archive panicked and left output behind: {}", tail(&r2.stderr));
            ctx.feat("scenario:damaged_archive");
        }
    }
    ctx.feat_if(data.len() >= (1 << 20) - 1 && (data.len() + 1) % (1 << 20) <= 131_074, "size:multi_MiB_boundary");
    ctx.feat_if(case.explicit_out, "paths:explicit");
    ctx.feat_if(!case.explicit_out, "paths:defaulted");
    ctx.nontrivial = !data.is_empty() && (case.level == Level::Absent || data.len() > 128 * 1024);
    ctx.set_hash_bytes(&[&data, format!("{:?}{:?}{}{}", case.level, case.scenario, case.explicit_out, case.name % 8).as_bytes()]);
    if ctx.nontrivial && data.len() < 2000 {
        ctx.sample = Some(json!({"file_bytes": data.len(), "name": name_shown, "level": format!("{:?}", case.level), "explicit_paths": case.explicit_out}));
    }
    Ok(())
}

fn case_strategy(tier: Tier) -> impl Strategy<Value = Case> {
    let max = if tier == Tier::Quick { 1 << 20 } else { 8 << 20 };
    let level = prop_oneof![4 => Just(Level::Absent), 2 => Just(Level::L(0)), 3 => Just(Level::L(1)), 2 => (2u8..=4).prop_map(Level::L), 1 => Just(Level::L(9)), 1 => Just(Level::L(255))];
    let scenario = prop_oneof![
        10 => Just(Scenario::RoundTrip),
        1 => Just(Scenario::MissingInput),
        1 => Just(Scenario::OutputDirMissing),
        1 => Just(Scenario::GarbageArchive),
        2 => any::<u16>().prop_map(Scenario::TruncatedArchive),
    ];
    (data_strategy(max), 0u8..=7, level, any::<bool>(), scenario, prop::bool::weighted(0.3)).prop_map(|(mut data, name, level, explicit_out, scenario, stale_outputs)| {
        // a few files of several MiB whose size sits on or just past a multiple of 1 / 2 / 4 / 8 MiB
        // (up to one block past it): where copy loops with large buffers and "finished" flags meet
        if data.seed % 25 == 3 {
            let k = [1u32, 2, 4, 8][(data.seed as usize >> 8) % 4];
            let delta = [-1i64, 0, 1, 1000, 65_536, 131_071, 131_072, 131_073][(data.seed as usize >> 12) % 8];
            data.kind = [0u8, 4, 9, 2][(data.seed as usize >> 16) % 4];
            data.len = ((k as i64) * (1 << 20) + delta) as u32;
        }
        let via_fifo = !stale_outputs && data.seed % 8 == 0;
        let holes = if data.seed % 6 == 1 { Some(((data.seed >> 4) as u8 % 4, (data.seed >> 8) as u8 % 4, 1 + (data.seed >> 12) as u8 % 3)) } else { None };
        Case { data, name, level, explicit_out, scenario, stale_outputs, via_fifo, holes }
    })
}

pub fn run_check(eng: &Engine) {
    eng.set_rule("the real ruzstd-cli binary in a private directory: file contents from the data generator (0 B .. 1 MiB quick / 8 MiB thorough, plus a few files sized k MiB + {-1 .. one block}, k in 1/2/4/8; names with dots, spaces, no extension, non-ASCII UTF-8, bytes that are not UTF-8) x level option {absent, -l 0, -l 1, -l 2..4 (unimplemented), -l 9, -l 255} x input as a regular file or through a named pipe x explicit / defaulted output paths (optionally with stale, longer files already at both destinations) x scenarios {round trip, missing input, output directory missing, garbage archive, truncated archive}; oracle: implemented levels and no level given: exit 0, archive decodes with libzstd to the original, decompress exit 0, restored file identical; operations that cannot be carried out: non-zero exit status and not (panic AND an output file left behind); never exit 0 with a wrong or partial file; non-trivial = non-empty content and (no level given or content > 128 KiB); distinct by (content, options) hash");
    eng.assume("the sandbox runs as root, so permission bits cannot be used to make operations fail; a missing directory is used instead");
    let tier = eng.tier;
    let n = eng.tier.pick(2_500, 20_000);
    eng.run_stage("cli_runs", n, || case_strategy(tier), check);
    let _ = std::fs::remove_dir_all(PathBuf::from(VERIF_ROOT).join("target/c19"));
}

pub fn replay(eng: &Engine, stage: &str, case: &Value) -> CaseResult {
    match stage {
        "cli_runs" => eng.replay_value(stage, case, check),
        _ => Err(Failure::new("machinery", format!("unknown stage {stage}"))),
    }
}
