//! C20 Dictionary builder terminates without panic and respects the requested size.

use crate::engine::{CaseCtx, CaseResult, Engine, Failure, Tier, VERIF_ROOT};
use crate::gen::data::DataSpec;
use crate::{ensure, fail};
use proptest::prelude::*;
use ruzstd::dictionary::{create_raw_dict_from_dir, create_raw_dict_from_source};
use serde::{Deserialize, Serialize};
use serde_json::{json, Value};
use std::io::Read;
use std::sync::atomic::{AtomicU64, Ordering};

#[derive(Clone, Copy, Debug, Serialize, Deserialize, PartialEq)]
pub enum Estimate {
    Exact,
    Zero,
    /// x/65536 of the true length
    Smaller(u16),
    /// true length + x
    Larger(u32),
    Times100,
    /// k << 32: low 32 bits zero
    LowBitsZero(u8),
    /// ((segs * 2048 + tail) * 256 + low): the reservoir sample (estimate / 256) is `segs` whole
    /// 2048-byte segments plus a tail of `tail` bytes - around the k-mer length (16) and 0
    SampleTail { segs: u8, tail: u8, low: u8 },
}

#[derive(Clone, Debug, Serialize, Deserialize)]
pub struct Case {
    pub source: DataSpec,
    pub estimate: Estimate,
    pub dict_size: u32,
    /// reader chunk size (0 = unlimited)
    pub chunk: u16,
    pub via_dir: bool,
    pub rng_seed: u64,
    /// dict_size = usize::MAX ("no limit") resp. a value near it: the size is an upper bound on
    /// what is written, not a request for that much memory
    #[serde(default)]
    pub unlimited: u8,
}

struct Chunked<'a> {
    data: &'a [u8],
    pos: usize,
    chunk: usize,
}
impl Read for Chunked<'_> {
    fn read(&mut self, buf: &mut [u8]) -> std::io::Result<usize> {
        let mut n = buf.len().min(self.data.len() - self.pos);
        if self.chunk > 0 {
            n = n.min(self.chunk);
        }
        buf[..n].copy_from_slice(&self.data[self.pos..self.pos + n]);
        self.pos += n;
        Ok(n)
    }
}

static COUNTER: AtomicU64 = AtomicU64::new(0);

pub fn check(case: &Case, ctx: &mut CaseCtx) -> CaseResult {
    let data = case.source.render();
    let n = data.len();
    // the builder's choices are random (fastrand); the checked properties do not depend on them,
    // the seed only makes a failure replayable
    fastrand::seed(case.rng_seed);
    let mut out: Vec<u8> = vec![];
    let dict_size = match case.unlimited % 4 {
        0 => case.dict_size as usize,
        1 => usize::MAX,
        2 => isize::MAX as usize,
        _ => (isize::MAX as usize) + 1 + case.dict_size as usize,
    };
    ctx.feat_if(case.unlimited % 4 != 0, "dict_size:near_usize_MAX_(no_limit)");
    if case.via_dir {
        let id = COUNTER.fetch_add(1, Ordering::Relaxed);
        let dir = std::path::PathBuf::from(VERIF_ROOT).join(format!("target/c20/tmp-{}-{id}", std::process::id()));
        let nested = dir.join("sub/deeper");
        std::fs::create_dir_all(&nested).map_err(|e| Failure::new("machinery", format!("{e}")))?;
        let third = n / 3;
        let _ = std::fs::write(dir.join("a.txt"), &data[..third]);
        let _ = std::fs::write(dir.join("sub/b.bin"), &data[third..2 * third]);
        let _ = std::fs::write(nested.join("c"), &data[2 * third..]);
        let r = create_raw_dict_from_dir(&dir, &mut out, dict_size);
        let _ = std::fs::remove_dir_all(&dir);
        if let Err(e) = r {
            fail!("dir_builder_io_error", "create_raw_dict_from_dir fails on a readable directory: {e}");
        }
        ctx.feat("api:from_dir");
    } else {
        let est: usize = match case.estimate {
            Estimate::Exact => n,
            Estimate::Zero => 0,
            Estimate::Smaller(f) => ((n as u64 * f as u64) >> 16) as usize,
            Estimate::Larger(x) => n + x as usize,
            Estimate::Times100 => n * 100,
            Estimate::LowBitsZero(k) => (k.clamp(1, 3) as usize) << 32,
            Estimate::SampleTail { segs, tail, low } => (segs.clamp(1, 4) as usize * 2048 + tail as usize) * 256 + low as usize,
        };
        create_raw_dict_from_source(Chunked { data: &data, pos: 0, chunk: case.chunk as usize }, est, &mut out, dict_size);
        ctx.feat(match case.estimate {
            Estimate::Exact => "estimate:exact",
            Estimate::Zero => "estimate:zero",
            Estimate::Smaller(_) => "estimate:smaller",
            Estimate::Larger(_) => "estimate:larger",
            Estimate::Times100 => "estimate:x100",
            Estimate::LowBitsZero(_) => "estimate:low_32_bits_zero",
            Estimate::SampleTail { tail, .. } => {
                if tail < 16 {
                    "estimate:sample_ends_in_a_tail_shorter_than_a_kmer"
                } else {
                    "estimate:sample_ends_in_a_short_tail"
                }
            }
        });
        ctx.feat_if(n == 0 && est >= 16, "source:empty_with_estimate>=16");
        ctx.nontrivial = (n >= 16 && est != n) || dict_size < n;
    }
    ensure!(out.len() <= dict_size, "dictionary_larger_than_requested", "requested a dictionary of at most {dict_size} bytes, {} bytes were written (source {n} bytes, estimate {:?}, via_dir {})", out.len(), case.estimate, case.via_dir);
    if case.via_dir {
        ctx.nontrivial = dict_size < n;
    }
    ctx.feat(match n {
        0 => "source:empty",
        1..=15 => "source:<16B",
        16..=2047 => "source:<one_segment",
        _ => "source:>=one_segment",
    });
    ctx.feat(match dict_size {
        0 => "dict_size:0",
        1..=15 => "dict_size:<16",
        16..=2047 => "dict_size:<one_segment",
        _ => "dict_size:>=one_segment",
    });
    ctx.set_hash_bytes(&[&data, format!("{:?}{}{}{}", case.estimate, case.dict_size, case.chunk, case.via_dir).as_bytes()]);
    if ctx.nontrivial && n < 3000 {
        ctx.sample = Some(json!({"source_bytes": n, "estimate": format!("{:?}", case.estimate), "dict_size": dict_size, "written": out.len()}));
    }
    Ok(())
}

fn case_strategy(tier: Tier) -> impl Strategy<Value = Case> {
    // the builder is quadratic in the source size: sources are bounded (and the bound is stated)
    let max = if tier == Tier::Quick { 40_000u32 } else { 262_144u32 };
    let len = prop_oneof![2 => Just(0u32), 2 => 1u32..=15, 3 => 16u32..=2047, 4 => 2048u32..=20_000, 2 => 2048u32..=max];
    let kind = prop_oneof![Just(0u8), Just(2u8), Just(4u8), Just(8u8), Just(9u8), Just(3u8)];
    let source = (kind, len, any::<u32>(), any::<u16>(), any::<u16>()).prop_map(|(kind, len, seed, a, b)| DataSpec { kind, len, seed, a, b });
    let estimate = prop_oneof![
        4 => Just(Estimate::Exact),
        1 => Just(Estimate::Zero),
        2 => any::<u16>().prop_map(Estimate::Smaller),
        2 => prop_oneof![1u32..=20, 1u32..=100_000].prop_map(Estimate::Larger),
        1 => Just(Estimate::Times100),
        1 => (1u8..=3).prop_map(Estimate::LowBitsZero),
        3 => (1u8..=4, prop_oneof![0u8..=17, 0u8..=40], any::<u8>()).prop_map(|(segs, tail, low)| Estimate::SampleTail { segs, tail, low }),
    ];
    let dict_size = prop_oneof![Just(0u32), Just(1u32), Just(15u32), Just(16u32), Just(100u32), Just(1024u32), Just(65_536u32), 0u32..=4096, 0u32..=300_000];
    (source, estimate, dict_size, prop_oneof![Just(0u16), 1u16..=64, 100u16..=9000], prop::bool::weighted(0.15), any::<u64>()).prop_map(|(source, estimate, dict_size, chunk, via_dir, rng_seed)| {
        // an estimate of k << 32 sizes internal tables by the estimate: keep the epoch count up
        let dict_size = if matches!(estimate, Estimate::LowBitsZero(_)) { dict_size.max(1 << 20) } else { dict_size };
        // The builder re-scores the whole reservoir sample (size ~ estimate / 256) for every 100 bytes
        // it reads beyond the sample: work ~ reads x sample^2. Over-estimates inflate the sample, so
        // the source is shortened until the predicted work is bounded (a slow but terminating run
        // must not be mistaken for a hang).
        let mut source = source;
        if let Estimate::SampleTail { segs, tail, .. } = estimate {
            // scoring runs only when the source is longer than the sample: a little longer, so that
            // the quadratic re-scoring stays small
            let sample = segs.clamp(1, 4) as u32 * 2048 + tail as u32;
            source.len = sample + 100 + source.len % 1400;
        }
        loop {
            let n = source.len as u64;
            let est: u64 = match estimate {
                Estimate::Exact => n,
                Estimate::Zero => 0,
                Estimate::Smaller(f) => (n * f as u64) >> 16,
                Estimate::Larger(x) => n + x as u64,
                Estimate::Times100 => n * 100,
                Estimate::LowBitsZero(k) => (k.clamp(1, 3) as u64) << 32,
                Estimate::SampleTail { .. } => break,
            };
            if est < 16 {
                break;
            }
            let seg = est.min(2048);
            let nseg = (est / seg).max(1);
            let sample = (est / (est / (2 * nseg)).clamp(1, 256)).max(16).min(n);
            let reads = n.saturating_sub(sample) / 100 + 1;
            if reads.saturating_mul(sample).saturating_mul(sample) <= 1_500_000_000 || source.len < 64 {
                break;
            }
            source.len /= 2;
        }
        let unlimited = if rng_seed % 16 == 0 { 1 + (rng_seed >> 8) as u8 % 3 } else { 0 };
        Case { source, estimate, dict_size, chunk, via_dir, rng_seed, unlimited }
    })
}

pub fn run(eng: &Engine) {
    eng.set_rule("training sources (empty, < 16 B, < one segment, text-like, binary, constant, periodic; bounded to 40 KiB quick / 256 KiB thorough because the builder is quadratic) x source-size estimate {exact, 0, smaller, larger, x100, k << 32 (low 32 bits zero), sample = whole segments + a tail of 0..40 bytes} x dict_size {0, 1, 15, 16, 100, 1 KiB, 64 KiB, random, > source, usize::MAX and neighbours} x reader chunking, through create_raw_dict_from_source and create_raw_dict_from_dir (temporary directory with nested files); oracle: returns without panic within the deadline (an overrun is a violation of kind hang) and writes at most dict_size bytes; non-trivial = source >= 16 bytes with an estimate different from its length, or dict_size < source length; distinct by case hash; the builder's unseeded fastrand is seeded from the case so failures replay");
    eng.assume("sources are bounded to 256 KiB: the builder re-scores the whole sample for every 100 bytes read");
    let tier = eng.tier;
    let n = eng.tier.pick(2_000, 30_000);
    eng.run_stage("builder_cases", n, || case_strategy(tier), check);
    let _ = std::fs::remove_dir_all(std::path::PathBuf::from(VERIF_ROOT).join("target/c20"));
}

pub fn replay(eng: &Engine, stage: &str, case: &Value) -> CaseResult {
    match stage {
        "builder_cases" => eng.replay_value(stage, case, check),
        _ => Err(Failure::new("machinery", format!("unknown stage {stage}"))),
    }
}
