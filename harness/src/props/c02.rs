//! C02 Compress then decompress returns the input, and the frame is valid Zstandard.
//! (shared machinery for C08's compressor clause and C15)

use crate::engine::{CaseCtx, CaseResult, Engine, Failure, Tier};
use crate::gen::data::{data_strategy, DataSpec, BLOCK};
use crate::model::frame::{self, FrameInfo, WalkOpts};
use crate::props::c01::{first_diff, hexhead};
use crate::{ensure, refz};
use proptest::prelude::*;
use ruzstd::decoding::{FrameDecoder, StreamingDecoder};
use ruzstd::encoding::{compress_to_vec, CompressionLevel, FrameCompressor};
use serde::{Deserialize, Serialize};
use serde_json::{json, Value};
use std::io::Read;

#[derive(Clone, Debug, Serialize, Deserialize, PartialEq)]
pub enum Chunking {
    Whole,
    Fixed(u32),
    Pattern(Vec<u32>),
    /// reads end exactly on 128 KiB block boundaries, then `rest` bytes at a time
    BlockAligned(u32),
    /// reader wrapped in Read::take with a limit beyond the data
    Take(u32),
}

#[derive(Clone, Debug, Serialize, Deserialize)]
pub struct Job {
    pub data: DataSpec,
    /// 0 Uncompressed, 1 Fastest
    pub level: u8,
    pub chunking: Chunking,
    /// (reused compressor only) before this job the same compressor goes through a compress() call
    /// that does not complete: 1 the drain fails after `abort_arg` bytes, 2 an unimplemented level is
    /// selected, 3 the source fails after `abort_arg` bytes. compress() has no error return - it
    /// panics; the caller catches that and goes on using the compressor for the next input
    #[serde(default)]
    pub abort_before: u8,
    #[serde(default)]
    pub abort_arg: u32,
    /// 0: the drain takes whatever it is offered; n > 0: it takes at most n bytes per write() call
    /// (a pipe, a socket, a packetising writer) - Write::write may do that, write_all copes with it
    #[serde(default)]
    pub short_drain: u32,
}

/// drain of the reused compressor: memory, or one that fails after `left` more bytes
pub enum Sink {
    Mem(Vec<u8>),
    Failing { left: usize },
    /// takes at most `per_call` bytes per write() call
    Short { v: Vec<u8>, per_call: usize },
}

impl Sink {
    pub fn for_job(j: &Job) -> Sink {
        if j.short_drain > 0 {
            Sink::Short { v: Vec::new(), per_call: j.short_drain as usize }
        } else {
            Sink::Mem(Vec::new())
        }
    }
    pub fn into_bytes(self) -> Vec<u8> {
        match self {
            Sink::Mem(v) | Sink::Short { v, .. } => v,
            Sink::Failing { .. } => vec![],
        }
    }
}

impl std::io::Write for Sink {
    fn write(&mut self, buf: &[u8]) -> std::io::Result<usize> {
        match self {
            Sink::Mem(v) => {
                v.extend_from_slice(buf);
                Ok(buf.len())
            }
            Sink::Short { v, per_call } => {
                let n = buf.len().min(*per_call);
                v.extend_from_slice(&buf[..n]);
                Ok(n)
            }
            Sink::Failing { left } => {
                if *left == 0 {
                    return Err(std::io::Error::other("disk full"));
                }
                let n = buf.len().min(*left);
                *left -= n;
                Ok(n)
            }
        }
    }
    fn flush(&mut self) -> std::io::Result<()> {
        Ok(())
    }
}

#[derive(Clone, Debug, Serialize, Deserialize)]
pub struct Case {
    pub jobs: Vec<Job>,
    /// single job through the one-shot compress_to_vec
    pub oneshot: bool,
    /// (reused compressor, non-empty) ONE source for all frames: it is installed once, wrapped in
    /// Read::take, and every further frame only moves the limit (`source_mut().set_limit(n)`) before
    /// compress() - the way an endless stream is cut into frames. Cut points as fractions of the
    /// data of jobs[0]; the results are (slice, frame) pairs in stream order
    #[serde(default)]
    pub stream_cuts: Vec<u16>,
}

pub struct FragReader {
    data: Vec<u8>,
    pos: usize,
    chunking: Chunking,
    calls: usize,
    /// reads fail once this many bytes were handed out
    fail_at: Option<usize>,
}

impl Read for FragReader {
    fn read(&mut self, buf: &mut [u8]) -> std::io::Result<usize> {
        if let Some(f) = self.fail_at {
            if self.pos >= f {
                return Err(std::io::Error::other("source went away"));
            }
        }
        let left = self.data.len() - self.pos;
        let want = match &self.chunking {
            Chunking::Whole | Chunking::Take(_) => buf.len(),
            Chunking::Fixed(n) => (*n as usize).max(1),
            Chunking::Pattern(p) => (p[self.calls % p.len()] as usize).max(1),
            Chunking::BlockAligned(rest) => {
                let to_boundary = BLOCK as usize - self.pos % BLOCK as usize;
                if self.calls % 2 == 0 {
                    to_boundary
                } else {
                    (*rest as usize).max(1).min(to_boundary)
                }
            }
        };
        self.calls += 1;
        let mut n = want.min(buf.len()).min(left);
        if let Some(f) = self.fail_at {
            n = n.min(f - self.pos);
        }
        buf[..n].copy_from_slice(&self.data[self.pos..self.pos + n]);
        self.pos += n;
        Ok(n)
    }
}

pub fn level_of(l: u8) -> CompressionLevel {
    if l % 2 == 0 {
        CompressionLevel::Uncompressed
    } else {
        CompressionLevel::Fastest
    }
}

fn chunking_strategy() -> impl Strategy<Value = Chunking> {
    prop_oneof![
        4 => Just(Chunking::Whole),
        1 => Just(Chunking::Fixed(1)),
        2 => prop_oneof![2u32..=17, 100u32..=70_000, Just(BLOCK), Just(BLOCK - 1), Just(BLOCK + 1)].prop_map(Chunking::Fixed),
        2 => prop::collection::vec(prop_oneof![1u32..=9, 1u32..=5000, 60_000u32..=140_000], 1..5).prop_map(Chunking::Pattern),
        1 => (1u32..=5000).prop_map(Chunking::BlockAligned),
        1 => (0u32..=10).prop_map(Chunking::Take),
    ]
}

pub fn job_strategy(max_len: u32) -> impl Strategy<Value = Job> {
    (data_strategy(max_len), prop_oneof![1 => Just(0u8), 4 => Just(1u8)], chunking_strategy()).prop_map(|(data, level, chunking)| {
        // one-byte reads on big inputs are slow and add nothing over medium sizes
        let chunking = match chunking {
            Chunking::Fixed(n) if n < 8 && data.len > 300_000 => Chunking::Fixed(4099),
            c => c,
        };
        let short_drain = match data.seed % 7 {
            1 => [1u32, 5, 7, 1400, 4096, 65_536, 131_075][(data.seed as usize >> 8) % 7],
            2 => 1 + (data.seed >> 8) % 70_000,
            _ => 0,
        };
        // (byte-wise drains on big inputs: one call per byte is slow and adds nothing)
        let short_drain = if short_drain > 0 && short_drain < 64 && data.len > 300_000 { 1400 } else { short_drain };
        Job { data, level, chunking, abort_before: 0, abort_arg: 0, short_drain }
    })
}

/// jobs for a reused compressor: some are preceded by a compress() call that does not complete
fn reuse_job_strategy(max_len: u32) -> impl Strategy<Value = Job> {
    (job_strategy(max_len), prop_oneof![6 => Just(0u8), 1 => Just(1u8), 1 => Just(2u8), 1 => Just(3u8)], prop_oneof![Just(0u32), 1u32..=40, 1u32..=200_000]).prop_map(|(mut j, a, arg)| {
        j.abort_before = a;
        j.abort_arg = arg;
        j
    })
}

pub fn case_strategy(tier: Tier) -> impl Strategy<Value = Case> {
    let max_len = if tier == Tier::Quick { 1 << 20 } else { 8 << 20 };
    prop_oneof![
        3 => job_strategy(max_len).prop_map(|j| Case { jobs: vec![j], oneshot: true, stream_cuts: vec![] }),
        5 => prop::collection::vec(reuse_job_strategy(max_len.min(600_000)), 1..=6).prop_map(|jobs| Case { jobs, oneshot: false, stream_cuts: vec![] }),
        1 => (job_strategy(max_len.min(600_000)), prop::collection::vec(any::<u16>(), 1..=4)).prop_map(|(j, mut cuts)| {
            cuts.sort();
            Case { jobs: vec![j], oneshot: false, stream_cuts: cuts }
        }),
    ]
}

/// Runs the history; returns (input, frame) per job. Panics inside the compressor propagate.
pub fn compress_history(case: &Case) -> Vec<(Vec<u8>, Vec<u8>)> {
    let mut out = vec![];
    if case.oneshot {
        let j = &case.jobs[0];
        let data = j.data.render();
        let rd = FragReader { data: data.clone(), pos: 0, chunking: j.chunking.clone(), calls: 0, fail_at: None };
        let frame = match &j.chunking {
            Chunking::Take(extra) => compress_to_vec(rd.take(data.len() as u64 + *extra as u64), level_of(j.level)),
            _ => compress_to_vec(rd, level_of(j.level)),
        };
        out.push((data, frame));
        return out;
    }
    if !case.stream_cuts.is_empty() {
        let j = &case.jobs[0];
        let data = j.data.render();
        let mut bounds: Vec<usize> = case.stream_cuts.iter().map(|c| ((data.len() as u64 * *c as u64) >> 16) as usize).collect();
        bounds.push(data.len());
        let mut comp: FrameCompressor<std::io::Take<FragReader>, Sink, _> = FrameCompressor::new(level_of(j.level));
        let mut from = 0usize;
        for (k, &to) in bounds.iter().enumerate() {
            let n = (to - from) as u64;
            if k == 0 {
                comp.set_source(FragReader { data: data.clone(), pos: 0, chunking: j.chunking.clone(), calls: 0, fail_at: None }.take(n));
            } else {
                comp.source_mut().unwrap().set_limit(n);
            }
            comp.set_drain(Sink::for_job(j));
            comp.compress();
            let frame = comp.take_drain().map(Sink::into_bytes).unwrap_or_default();
            out.push((data[from..to].to_vec(), frame));
            from = to;
        }
        return out;
    }
    let mut comp: FrameCompressor<FragReader, Sink, _> = FrameCompressor::new(level_of(case.jobs[0].level));
    for j in &case.jobs {
        let data = j.data.render();
        if j.abort_before % 4 != 0 {
            // a compress() call that does not complete (it panics: the API has no error return);
            // the caller catches that and keeps using the compressor
            let (level, sink, fail_at) = match j.abort_before % 4 {
                1 => (level_of(j.level), Sink::Failing { left: j.abort_arg as usize % (data.len() / 2 + 9) }, None),
                2 => (CompressionLevel::Default, Sink::Mem(Vec::new()), None),
                _ => (level_of(j.level), Sink::Mem(Vec::new()), Some(if data.len() > BLOCK as usize + 2000 { BLOCK as usize + j.abort_arg as usize % 2000 } else { j.abort_arg as usize % (data.len() + 1) })),
            };
            comp.set_compression_level(level);
            comp.set_source(FragReader { data: data.clone(), pos: 0, chunking: j.chunking.clone(), calls: 0, fail_at });
            comp.set_drain(sink);
            let _ = std::panic::catch_unwind(std::panic::AssertUnwindSafe(|| comp.compress()));
        }
        comp.set_compression_level(level_of(j.level));
        comp.set_source(FragReader { data: data.clone(), pos: 0, chunking: j.chunking.clone(), calls: 0, fail_at: None });
        comp.set_drain(Sink::for_job(j));
        comp.compress();
        let frame = comp.take_drain().map(Sink::into_bytes).unwrap_or_default();
        out.push((data, frame));
    }
    out
}

/// labels from walking a compressor-made frame; returns whether it contains a Compressed block
pub fn label_encoder_paths(info: &FrameInfo, input_len: usize, ctx: &mut CaseCtx) -> bool {
    let mut has_comp = false;
    ctx.feat_if(info.blocks.len() > 1, "enc:multi_block");
    ctx.feat_if(input_len > 0 && input_len % BLOCK as usize == 0, "enc:exact_block_multiple");
    let mut prev_raw = false;
    for b in &info.blocks {
        match b.btype {
            0 => {
                ctx.feat(if b.regen == 0 { "enc:empty_raw_block" } else { "enc:raw_block" });
                prev_raw = b.regen > 0;
            }
            1 => ctx.feat("enc:rle_block"),
            _ => {
                has_comp = true;
                ctx.feat("enc:compressed_block");
                ctx.feat_if(prev_raw, "enc:compressed_after_raw_block");
                if let Some(l) = &b.lit {
                    ctx.feat(match l.ltype {
                        0 => "enc:raw_literals",
                        1 => "enc:rle_literals",
                        2 => "enc:huffman_new_table",
                        _ => "enc:huffman_treeless",
                    });
                    ctx.feat_if(l.ltype == 2 && l.fse_weights, "enc:weights_fse");
                    ctx.feat_if(l.ltype == 2 && !l.fse_weights, "enc:weights_direct");
                    ctx.feat_if(l.ltype >= 2 && l.size_format == 2, "enc:literals_14bit");
                    ctx.feat_if(l.ltype >= 2 && l.size_format == 3, "enc:literals_18bit");
                }
                if let Some(s) = &b.seq {
                    ctx.feat_if(s.modes[0] == 2 && s.logs[0] == 9, "enc:ll_table_at_its_limit_(log_9)");
                    ctx.feat_if(s.modes[1] == 2 && s.logs[1] == 8, "enc:of_table_at_its_limit_(log_8)");
                    ctx.feat_if(s.modes[1] == 2 && s.logs[1] == 7, "enc:of_table_log_7");
                    ctx.feat_if(s.modes[2] == 2 && s.logs[2] == 9, "enc:ml_table_at_its_limit_(log_9)");
                    ctx.feat_if(s.nseq == 0, "enc:no_sequences");
                    ctx.feat_if(s.count_bytes == 2, "enc:2byte_seq_count");
                    ctx.feat_if(s.count_bytes == 3, "enc:3byte_seq_count");
                    for q in &s.seqs {
                        ctx.feat_if(q.ll_code >= 25, "enc:ll_code>=25");
                        ctx.feat_if(q.ml_code >= 43, "enc:ml_code>=43");
                        ctx.feat_if(q.offset as usize > 65_536, "enc:offset>64K");
                    }
                }
                prev_raw = false;
            }
        }
    }
    has_comp
}

pub fn verify_frame(input: &[u8], frame_bytes: &[u8], what: &str) -> CaseResult {
    // (a) reference decoder (verifies the checksum too)
    match refz::decompress(frame_bytes, None, input.len() + 1) {
        Ok(d) => ensure!(d == input, "reference_decodes_differently", "{what}: the reference decoder returns different data ({}); frame {}", first_diff(&d, input), hexhead(frame_bytes)),
        Err(e) => return Err(Failure::new("reference_rejects_frame", format!("{what}: the reference decoder rejects the frame: {e}; input {} bytes, frame {} ({} bytes)", input.len(), hexhead(frame_bytes), frame_bytes.len()))),
    }
    // (b) this crate's decoders
    let mut dec = FrameDecoder::new();
    let mut out = vec![0u8; input.len()];
    match dec.decode_all(frame_bytes, &mut out) {
        Ok(n) => ensure!(n == input.len() && out == input, "own_decoder_differs", "{what}: decode_all returns different data ({})", first_diff(&out[..n], input)),
        Err(e) => return Err(Failure::new("own_decoder_rejects_frame", format!("{what}: decode_all rejects the frame: {e}; frame {}", hexhead(frame_bytes)))),
    }
    let mut sd = StreamingDecoder::new(frame_bytes).map_err(|e| Failure::new("own_decoder_rejects_frame", format!("{what}: StreamingDecoder::new: {e}")))?;
    let mut out2 = Vec::with_capacity(input.len());
    sd.read_to_end(&mut out2).map_err(|e| Failure::new("own_decoder_rejects_frame", format!("{what}: streaming read: {e}")))?;
    ensure!(out2 == input, "own_decoder_differs", "{what}: StreamingDecoder returns different data ({})", first_diff(&out2, input));
    Ok(())
}

pub fn check(case: &Case, ctx: &mut CaseCtx) -> CaseResult {
    let results = compress_history(case);
    let mut nontrivial = false;
    let mut parts: Vec<&[u8]> = vec![];
    for (i, (input, frame_bytes)) in results.iter().enumerate() {
        let j = &case.jobs[i.min(case.jobs.len() - 1)];
        let what = format!("frame #{i} of {} ({}, level {}, {:?})", results.len(), j.data.kind_name(), if j.level % 2 == 0 { "Uncompressed" } else { "Fastest" }, j.chunking);
        verify_frame(input, frame_bytes, &what)?;
        if let Ok(info) = frame::walk(frame_bytes, &WalkOpts::default()) {
            let has_comp = label_encoder_paths(&info, input.len(), ctx);
            if has_comp && !input.is_empty() {
                nontrivial = true;
            }
        }
        ctx.feat(j.data.kind_name());
        ctx.feat_if(i >= 1, "enc:reused_compressor");
        ctx.feat_if(!case.oneshot && j.abort_before % 4 != 0, ["", "enc:after_a_compress_whose_drain_failed", "enc:after_a_compress_with_an_unimplemented_level", "enc:after_a_compress_whose_source_failed"][(j.abort_before % 4) as usize]);
        ctx.feat_if(j.chunking != Chunking::Whole, "enc:fragmented_source");
        parts.push(frame_bytes);
    }
    ctx.feat_if(case.oneshot, "enc:oneshot_api");
    ctx.feat_if(!case.oneshot && case.jobs.iter().any(|j| j.short_drain > 0), "enc:drain_takes_part_of_a_write_only");
    ctx.feat_if(!case.stream_cuts.is_empty(), "enc:one_source_cut_into_frames_by_take_limits");
    ctx.weight = results.len() as u64;
    ctx.nontrivial = nontrivial;
    ctx.set_hash_bytes(&parts);
    if nontrivial && results.len() == 1 && results[0].1.len() < 100 {
        ctx.sample = Some(json!({"input_len": results[0].0.len(), "frame_hex": hexhead(&results[0].1), "level": case.jobs[0].level % 2}));
    }
    Ok(())
}

pub fn run(eng: &Engine) {
    eng.set_rule("compressor histories: 1..6 frames through one reused FrameCompressor (levels Uncompressed/Fastest switched per frame) or the one-shot compress_to_vec, inputs from the data generator (incl. the boundary-seeking family that sits on the raw-fallback decision), sources fragmented by generated read patterns (1-byte reads, reads ending on block boundaries, Read::take); on the reused compressor some frames are preceded by a compress() call that does not complete (failing drain, failing source, unimplemented level - the call panics, the caller catches it and goes on); every frame decoded by libzstd (checksum verified) and by this crate's decode_all and StreamingDecoder; non-trivial = non-empty input whose frame contains a Compressed block; distinct by hash of the emitted frames; evaluations count frames");
    eng.assume("levels Default/Better/Best are documented unimplemented and not part of 'every implemented level'");
    let tier = eng.tier;
    let n = eng.tier.pick(20_000, 300_000);
    eng.run_stage("histories", n, || case_strategy(tier), check);
}

pub fn replay(eng: &Engine, stage: &str, case: &Value) -> CaseResult {
    match stage {
        "histories" => eng.replay_value(stage, case, check),
        _ => Err(Failure::new("machinery", format!("unknown stage {stage}"))),
    }
}
