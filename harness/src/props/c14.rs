//! C14 Sequence codes, repeat-offset rules and section headers match the specification.
//! Enumerations over the hooked pure functions against tables transcribed from RFC 8878.

use crate::engine::{CaseCtx, CaseResult, Engine, Failure, Tier};
use crate::model::codes::*;
use crate::model::frame;
use crate::model::synth::Rng;
use crate::{ensure, fail, selftest};
use ruzstd::verif_hooks as hk;
use serde_json::{json, Value};
use proptest::prelude::*;
use serde::{Deserialize, Serialize};

const STAGES: [&str; 15] = [
    "extra_bits_triple",
    "rle_mode_symbols",
    "mode_transitions",
    "ll_codes",
    "ml_codes",
    "of_codes_dense",
    "of_codes_wide",
    "seq_count_writer",
    "seq_count_parser",
    "block_headers",
    "block_header_writer",
    "frame_headers",
    "frame_header_writer",
    "literals_headers",
    "offset_history",
];

fn ll_item(v: u64, ctx: &mut CaseCtx) -> CaseResult {
    let v = v as u32;
    let (code, extra, bits) = hk::encode_literal_length(v);
    let want = ll_code(v);
    ensure!((code, extra, bits as u8) == want, "ll_encode", "encode_literal_length({v}) = {:?}, RFC says {:?}", (code, extra, bits), want);
    let (base, nb) = hk::lookup_ll_code(code);
    ensure!((base, nb) == LL_TABLE[code as usize], "ll_lookup", "lookup_ll_code({code}) = {:?}, RFC says {:?}", (base, nb), LL_TABLE[code as usize]);
    ensure!(base + extra == v && (extra as u64) < (1u64 << nb) && nb as usize == bits, "ll_inverse", "decode(encode({v})) = {} with {} bits", base + extra, nb);
    ctx.nontrivial = true;
    if v == 65536 {
        ctx.sample = Some(json!({"ll": v, "code": code, "extra": extra, "bits": bits}));
    }
    Ok(())
}

fn ml_item(i: u64, ctx: &mut CaseCtx) -> CaseResult {
    let v = i as u32 + 3;
    let (code, extra, bits) = hk::encode_match_len(v);
    let want = ml_code(v);
    ensure!((code, extra, bits as u8) == want, "ml_encode", "encode_match_len({v}) = {:?}, RFC says {:?}", (code, extra, bits), want);
    let (base, nb) = hk::lookup_ml_code(code);
    ensure!((base, nb) == ML_TABLE[code as usize], "ml_lookup", "lookup_ml_code({code}) = {:?}, RFC says {:?}", (base, nb), ML_TABLE[code as usize]);
    ensure!(base + extra == v && (extra as u64) < (1u64 << nb) && nb as usize == bits, "ml_inverse", "decode(encode({v})) = {} with {} bits", base + extra, nb);
    ctx.nontrivial = true;
    if v == 131074 {
        ctx.sample = Some(json!({"ml": v, "code": code, "extra": extra, "bits": bits}));
    }
    Ok(())
}

fn of_check(v: u32) -> CaseResult {
    let (code, extra, bits) = hk::encode_offset(v);
    let want = of_code(v);
    ensure!((code, extra, bits as u8) == want, "of_encode", "encode_offset({v}) = {:?}, RFC says {:?}", (code, extra, bits), want);
    // decoder formula: value = (1 << code) + extra
    ensure!(code <= MAX_OF_CODE && (1u64 << code) + extra as u64 == v as u64 && (extra as u64) < (1u64 << bits), "of_inverse", "offset {v}: code {code} extra {extra}");
    Ok(())
}

/// item = 4096 consecutive offset values
fn of_dense_item(i: u64, ctx: &mut CaseCtx) -> CaseResult {
    let lo = (i * 4096) as u32;
    for v in lo.max(1)..=lo + 4095 {
        of_check(v)?;
    }
    ctx.weight = 4096 - (lo == 0) as u64;
    ctx.nontrivial = true;
    Ok(())
}

/// quick: around powers of two + pseudo-random; thorough: all 2^32 (item = 65536 values)
fn of_wide_item(i: u64, ctx: &mut CaseCtx, all: bool, seed: u64) -> CaseResult {
    if all {
        let lo = i << 16;
        for v in lo.max(1)..lo + 65536 {
            of_check(v as u32)?;
        }
        ctx.weight = 65536 - (lo == 0) as u64;
    } else {
        // i in 0..32: power-of-two neighbourhoods; afterwards pseudo-random blocks of 65536 values
        if i < 32 {
            let p = 1u64 << i;
            let mut n = 0;
            for d in -4i64..=4 {
                let v = p as i64 + d;
                if v >= 1 && v <= u32::MAX as i64 {
                    of_check(v as u32)?;
                    n += 1;
                }
            }
            of_check(u32::MAX)?;
            ctx.weight = n + 1;
        } else {
            let mut r = Rng(seed ^ i.wrapping_mul(0x9E3779B97F4A7C15));
            for _ in 0..65536 {
                let v = (r.next() as u32).max(1);
                of_check(v)?;
            }
            ctx.weight = 65536;
        }
    }
    ctx.nontrivial = true;
    Ok(())
}

fn spec_count_bytes(n: usize) -> Vec<u8> {
    // minimal encoding per RFC 8878 3.1.1.3.2.1
    if n < 128 {
        vec![n as u8]
    } else if n < 0x7F00 {
        vec![((n >> 8) + 128) as u8, (n & 255) as u8]
    } else {
        let v = n - 0x7F00;
        vec![255, (v & 255) as u8, (v >> 8) as u8]
    }
}

fn seq_count_writer_item(i: u64, ctx: &mut CaseCtx) -> CaseResult {
    let n = i as usize + 1;
    let mut bytes = hk::encode_seqnum(n);
    let written = bytes.len();
    bytes.push(0xA8); // a modes byte
    let parsed = hk::parse_sequences_header(&bytes);
    match parsed {
        Ok((got, modes, used)) => {
            ensure!(got as usize == n && used as usize == written + 1 && modes == Some(0xA8), "seqnum_roundtrip",
                "sequence count {n}: written as {:02x?}, read back as {got} ({used} bytes, modes {modes:?})", &bytes[..written]);
        }
        Err(e) => fail!("seqnum_roundtrip", "sequence count {n}: written as {:02x?}, parser says {e}", &bytes[..written]),
    }
    // the model reads the same bytes to the same value
    let m = frame_count(&bytes);
    ensure!(m == Some((n, written)), "seqnum_spec", "sequence count {n}: written as {:02x?}, RFC reads {m:?}", &bytes[..written]);
    ctx.nontrivial = true;
    ctx.feat(match written {
        1 => "count:1byte",
        2 => "count:2byte",
        _ => "count:3byte",
    });
    if n == 0x7F00 {
        ctx.sample = Some(json!({"count": n, "bytes": bytes[..written]}));
    }
    Ok(())
}

fn frame_count(s: &[u8]) -> Option<(usize, usize)> {
    match *s.first()? {
        0 => Some((0, 1)),
        b @ 1..=127 => Some((b as usize, 1)),
        b @ 128..=254 => Some((((b as usize - 128) << 8) + *s.get(1)? as usize, 2)),
        255 => Some((*s.get(1)? as usize + ((*s.get(2)? as usize) << 8) + 0x7F00, 3)),
    }
}

/// item i: (b0, b1, b2) for every defined prefix; all truncations must be errors
fn seq_count_parser_item(i: u64, ctx: &mut CaseCtx) -> CaseResult {
    let b0 = (i >> 16) as u8;
    let b1 = (i >> 8) as u8;
    let b2 = i as u8;
    // skip redundant items: for b0 < 128 only b1=b2=0; for 128..=254 only b2=0
    if (b0 < 128 && (b1 != 0 || b2 != 0)) || ((128..=254).contains(&b0) && b2 != 0) {
        ctx.weight = 1;
        return Ok(());
    }
    let full = [b0, b1, b2];
    let (n, cb) = frame_count(&full).unwrap();
    let mut bytes = full[..cb].to_vec();
    if n > 0 {
        bytes.push(0x54);
    }
    match hk::parse_sequences_header(&bytes) {
        Ok((got, modes, used)) => {
            ensure!(got as usize == n && used as usize == bytes.len() && (n == 0 || modes == Some(0x54)), "seqnum_parse",
                "count bytes {:02x?}: parsed {got} / {used} bytes / modes {modes:?}, RFC says {n} / {} bytes", bytes, bytes.len());
        }
        Err(e) => fail!("seqnum_parse", "count bytes {:02x?} rejected: {e} (RFC: {n} sequences)", bytes),
    }
    for cut in 0..bytes.len() {
        ensure!(hk::parse_sequences_header(&bytes[..cut]).is_err(), "seqnum_truncated", "truncated count {:02x?} accepted", &bytes[..cut]);
    }
    ctx.nontrivial = true;
    Ok(())
}

/// item = one 3-byte block header value
/// The extra bits of one sequence are read as a triple (offset bits up to 31, match-length bits up to
/// 16, literal-length bits up to 16 - more than the 56 bits one refill holds when the offset code is
/// 25 or more, i.e. for distances from 32 MiB on, which no generated frame of the quick tier
/// reaches). Documented contract: "same as calling get_bits three times". Item = ((n1 * 17 + n2) *
/// 17 + n3) * 8 + variant (bit position the triple starts at, stream contents).
fn triple_item(v: u64, ctx: &mut CaseCtx) -> CaseResult {
    use ruzstd::verif_hooks::BitReaderReversed;
    let variant = v % 8;
    let n3 = (v / 8 % 17) as u8;
    let n2 = (v / 8 / 17 % 17) as u8;
    let n1 = (v / 8 / 17 / 17) as u8;
    let mut r = Rng(v * 0x9E37 + 11);
    let stream: Vec<u8> = (0..24).map(|_| r.next() as u8).collect();
    let skip = (variant * 5 % 23) as u8;
    let mut a = BitReaderReversed::new(&stream);
    let mut b = BitReaderReversed::new(&stream);
    let (sa, sb) = (a.get_bits(skip), b.get_bits(skip));
    let ta = a.get_bits_triple(n1, n2, n3);
    let tb = (b.get_bits(n1), b.get_bits(n2), b.get_bits(n3));
    let (fa, fb) = (a.get_bits(9), b.get_bits(9));
    ensure!(sa == sb && ta == tb && fa == fb, "extra_bits_triple", "get_bits_triple({n1}, {n2}, {n3}) after {skip} bits returns {ta:?} then {fa:#x}; three get_bits calls return {tb:?} then {fb:#x}; stream {stream:02x?}");
    ctx.nontrivial = n1 as u32 + n2 as u32 + n3 as u32 > 56;
    ctx.feat_if(ctx.nontrivial, "triple:more_than_56_bits_(offset_code>=25_with_long_lengths)");
    Ok(())
}

/// RLE_Mode for a sequence table: the one byte that follows is a CODE and must be one the format
/// defines for that table (literal lengths 0..=35, offsets 0..=31, match lengths 0..=52). Item =
/// table * 256 + byte. A one-sequence block is decoded; "refused as a symbol" is told from every
/// later failure (a huge offset with nothing to copy from fails when the sequence is executed).
fn rle_symbol_item(v: u64, ctx: &mut CaseCtx) -> CaseResult {
    let table = (v / 256) as usize;
    let sym = (v % 256) as u8;
    let mut syms = [0u8, 1, 0]; // ll, of, ml
    syms[table] = sym;
    let mut f = vec![0x28, 0xB5, 0x2F, 0xFD, 0x00, 0x00];
    let mut body = vec![0x10, b'a', b'b', 0x01, 0x54, syms[0], syms[1], syms[2]];
    body.extend_from_slice(&[0u8; 9]); // room for 31 + 16 + 16 extra bits
    body.push(0x01); // end mark
    let bh = ((body.len() as u32) << 3) | (2 << 1) | 1;
    f.extend_from_slice(&bh.to_le_bytes()[..3]);
    f.extend_from_slice(&body);
    let mut dec = ruzstd::decoding::FrameDecoder::new();
    let mut out = vec![0u8; 1 << 17];
    let verdict = match dec.decode_all(&f, &mut out) {
        Ok(_) => "decoded".to_string(),
        Err(e) => format!("{e:?}"),
    };
    let refused_as_symbol = verdict.contains("MissingByteForRle") || verdict.contains("RleSymbol");
    let max = [MAX_LL_CODE, MAX_OF_CODE, MAX_ML_CODE][table];
    let name = ["literal-length", "offset", "match-length"][table];
    if sym <= max {
        ensure!(!refused_as_symbol, "rle_symbol_refused", "RLE_Mode with {name} code {sym} (legal: 0..={max}) is refused: {verdict}");
        ctx.feat("rle_symbol:legal_accepted");
    } else {
        ensure!(verdict != "decoded", "rle_symbol_accepted", "RLE_Mode with {name} code {sym} (legal: 0..={max}) was decoded");
        ctx.feat_if(refused_as_symbol, "rle_symbol:illegal_refused_as_symbol");
    }
    ctx.nontrivial = sym + 4 > max && sym <= max.saturating_add(4);
    Ok(())
}

/// Symbol_Compression_Modes across consecutive blocks: for one table every ordered triple of modes
/// (Predefined, RLE, FSE_Compressed, Repeat) over three blocks, the other two tables predefined; one
/// sequence per block so that every mode is representable. Repeat_Mode means "whatever the previous
/// block with sequences used for this table" - also when that was the single RLE symbol.
/// Item = ((((table * 4 + a) * 4 + b) * 4 + c) * 4 + variant).
fn mode_transition_item(v: u64, ctx: &mut CaseCtx) -> CaseResult {
    use crate::model::synth::*;
    let variant = v % 4;
    let c3 = (v / 4 % 4) as u8;
    let b3 = (v / 16 % 4) as u8;
    let a3 = (v / 64 % 4) as u8;
    let table = (v / 256 % 3) as usize;
    let mut blocks = vec![];
    for (k, m) in [a3, b3, c3].into_iter().enumerate() {
        let mut modes = [0u8; 3];
        modes[table] = m;
        // the table under test keeps its code from block to block (Repeat_Mode after RLE_Mode or
        // after a one-symbol description is only valid for that very code); the other two tables
        // change theirs, so that reading the wrong table, symbol or number of state bits shows
        let kk = |t: usize| if t == table { variant as usize } else { k + variant as usize };
        let ll = [3u32, 18, 70, 9][kk(0) % 4];
        let ml = [5u32, 40, 11, 130][(kk(2) * 3) % 4];
        let off = [OffSpec::Abs(2), OffSpec::Abs(9), OffSpec::Abs(33), OffSpec::Abs(20)][kk(1) % 4];
        let literals: Vec<u8> = (0..ll + 4).map(|i| b"mode transitions! "[(i as usize + k * 5) % 18]).collect();
        blocks.push(BlockSpec::Comp(CompSpec { literals, lit_mode: 0, lit_fmt: 0, huf_shape: 0, huf_fse: false, seqs: vec![SeqSpec { ll, ml, off }], count_fmt: 0, modes, tables: [(5 + (variant as u8 % 2), 3 + v as u32), (5, 11 + v as u32), (6, 7 + v as u32)] }));
    }
    let spec = FrameSpec { single_segment: false, window_desc: 0x10, fcs_bytes: 0, checksum: true, dict_id_bytes: 0, zero_dict_id: false, blocks };
    let out = synth(&spec, None, false);
    match crate::refz::decompress(&out.bytes, None, out.content.len() + 1) {
        Ok(d) if d == out.content => {}
        other => return Err(Failure::new("machinery", format!("the reference does not restore the synthesized mode-transition frame: {:?}", other.map(|d| d.len())))),
    }
    let mut dec = ruzstd::decoding::FrameDecoder::new();
    let mut buf = vec![0u8; out.content.len() + 16];
    match dec.decode_all(&out.bytes, &mut buf) {
        Ok(n) => ensure!(buf[..n] == out.content[..], "mode_transition_wrong_data", "table {} modes {:?} over three blocks: decoded data differs from the content ({} vs {} bytes); frame {:02x?}", ["LL", "OF", "ML"][table], [a3, b3, c3], n, out.content.len(), out.bytes),
        Err(e) => fail!("mode_transition_rejected", "table {} modes {:?} over three blocks: valid frame rejected: {e}; frame {:02x?}", ["LL", "OF", "ML"][table], [a3, b3, c3], out.bytes),
    }
    if let Ok(info) = frame::walk(&out.bytes, &Default::default()) {
        let used: Vec<u8> = info.blocks.iter().filter_map(|b| b.seq.as_ref()).map(|q| q.modes[table]).collect();
        ctx.feat_if(used.windows(2).any(|w| w == [1, 3]), "transition:rle_then_repeat");
        ctx.feat_if(used.windows(2).any(|w| w == [2, 3]), "transition:fse_then_repeat");
        ctx.feat_if(used.windows(2).any(|w| w == [0, 3]), "transition:predefined_then_repeat");
        ctx.feat_if(used.windows(3).any(|w| w == [1, 3, 3]), "transition:rle_repeat_repeat");
        ctx.nontrivial = used.contains(&3);
    }
    Ok(())
}

fn block_header_item(v: u64, ctx: &mut CaseCtx) -> CaseResult {
    let b = [(v & 255) as u8, (v >> 8) as u8, (v >> 16) as u8];
    let last = v & 1 == 1;
    let ty = ((v >> 1) & 3) as u8;
    let size = (v >> 3) as u32;
    let got = hk::read_block_header(b);
    let legal = ty != 3 && size <= 128 * 1024;
    match got {
        Ok((l, t, dec, content)) => {
            ensure!(legal, "blockheader_forbidden_accepted", "block header {b:02x?} (type {ty}, size {size}) accepted as {:?}", (l, t, dec, content));
            let want = (last, ty, if ty == 2 { 0 } else { size }, if ty == 1 { 1 } else { size });
            ensure!((l, t, dec, content) == want, "blockheader_meaning", "block header {b:02x?}: parsed {:?}, RFC says {:?}", (l, t, dec, content), want);
        }
        Err(e) => ensure!(!legal, "blockheader_legal_rejected", "legal block header {b:02x?} (type {ty} size {size}) rejected: {e}"),
    }
    ctx.nontrivial = true;
    Ok(())
}

fn block_header_writer_item(i: u64, ctx: &mut CaseCtx) -> CaseResult {
    let size = (i % 131_073) as u32;
    let ty = ((i / 131_073) % 3) as u8;
    let last = i / (131_073 * 3) == 1;
    let b = hk::serialize_block_header(last, ty, size);
    ensure!(b.len() == 3, "blockheader_writer", "block header has {} bytes", b.len());
    let got = hk::read_block_header([b[0], b[1], b[2]]);
    let want = (last, ty, if ty == 2 { 0 } else { size }, if ty == 1 { 1 } else { size });
    ensure!(got == Ok(want), "blockheader_writer", "block header ({last},{ty},{size}) written as {b:02x?} read back as {got:?}");
    ctx.nontrivial = true;
    Ok(())
}

/// item = (descriptor, window byte, fill pattern)
fn frame_header_item(i: u64, ctx: &mut CaseCtx) -> CaseResult {
    let desc = (i & 255) as u8;
    let wd = ((i >> 8) & 255) as u8;
    let pat = (i >> 16) as u8;
    let mut bytes = frame::MAGIC.to_le_bytes().to_vec();
    bytes.push(desc);
    let single = desc & 0x20 != 0;
    if !single {
        bytes.push(wd);
    }
    let did = [0usize, 1, 2, 4][(desc & 3) as usize];
    let fcs = match desc >> 6 {
        0 => single as usize,
        1 => 2,
        2 => 4,
        _ => 8,
    };
    let mut r = Rng(i);
    for k in 0..did + fcs {
        bytes.push(match pat {
            0 => 0,
            1 => 0xFF,
            2 => (k as u8).wrapping_mul(17).wrapping_add(wd),
            _ => r.next() as u8,
        });
    }
    let m = frame::parse_header(&bytes).map_err(|e| Failure::new("machinery", e))?;
    let got = hk::read_frame_header(&bytes);
    let got = match got {
        Ok(g) => g,
        Err(e) => fail!("frameheader_rejected", "header {bytes:02x?} rejected by the parser: {e}"),
    };
    ensure!(
        got.descriptor == desc
            && got.header_size as usize == m.header_len
            && got.dictionary_id == m.dict_id
            && got.frame_content_size == m.fcs.unwrap_or(0)
            && got.checksum_flag == m.checksum_flag
            && got.single_segment == m.single_segment,
        "frameheader_meaning",
        "header {bytes:02x?}: parsed (size {}, dict {:?}, fcs {}, checksum {}, single {}), RFC says {:?}",
        got.header_size, got.dictionary_id, got.frame_content_size, got.checksum_flag, got.single_segment, m
    );
    // window: every descriptor denotes a legal window (1 KiB ..= 3.75 TiB); single segment -> content size
    match &got.window_size {
        Ok(w) => ensure!(*w == m.window_size, "frameheader_window", "header {bytes:02x?}: window {w}, RFC says {}", m.window_size),
        Err(e) => ensure!(!single && m.window_size > frame::WINDOW_MAX, "frameheader_window_rejected",
            "header {bytes:02x?}: legal window {} refused: {e}", m.window_size),
    }
    for cut in 0..bytes.len() {
        ensure!(hk::read_frame_header(&bytes[..cut]).is_err(), "frameheader_truncated", "truncated header {:02x?} accepted", &bytes[..cut]);
    }
    ctx.nontrivial = true;
    if desc == 0xE7 && pat == 2 && wd == 0x55 {
        ctx.sample = Some(json!({"header_bytes": bytes, "meaning": format!("{m:?}")}));
    }
    Ok(())
}

fn frame_header_writer_item(i: u64, ctx: &mut CaseCtx, seed: u64) -> CaseResult {
    // windows a matcher may report: powers of two +-1, slice multiples, random; up to 2^41
    let checksum = i & 1 == 1;
    let k = i >> 1;
    let w: u64 = if k < 32 * 5 {
        let p = 1u64 << (10 + k / 5);
        (p as i64 + [-1i64, 0, 1, 1000, -1000][(k % 5) as usize]).max(1) as u64
    } else if k < 32 * 5 + 64 {
        (k - 160 + 1) * 128 * 1024
    } else {
        let mut r = Rng(seed ^ k);
        let e = 1 + r.below(41);
        (r.next() % (1u64 << e)).max(1)
    }
    .min(1u64 << 41);
    let bytes = hk::serialize_frame_header(w, checksum);
    let got = match hk::read_frame_header(&bytes) {
        Ok(g) => g,
        Err(e) => fail!("frameheader_writer", "header for window {w} ({bytes:02x?}) rejected: {e}"),
    };
    let m = frame::parse_header(&bytes).map_err(|e| Failure::new("frameheader_writer", format!("header for window {w} ({bytes:02x?}) invalid per RFC: {e}")))?;
    ensure!(got.header_size as usize == bytes.len() && m.header_len == bytes.len(), "frameheader_writer", "header for window {w}: length mismatch");
    ensure!(got.checksum_flag == checksum && !got.single_segment && got.dictionary_id.is_none() && m.fcs.is_none() && !m.reserved_bit,
        "frameheader_writer", "header for window {w} checksum {checksum}: fields differ ({bytes:02x?})");
    match got.window_size {
        Ok(ws) => ensure!(ws >= w && ws == m.window_size && ws >= 1024, "frameheader_writer_window",
            "matcher window {w} written as {bytes:02x?} which declares {ws}"),
        Err(e) => fail!("frameheader_writer_window", "matcher window {w} written as {bytes:02x?}: {e}"),
    }
    ctx.nontrivial = true;
    Ok(())
}

fn model_lit_header(b: &[u8]) -> Option<(u8, u32, Option<u32>, Option<u8>, u8)> {
    let b0 = *b.first()?;
    let ty = b0 & 3;
    let sf = (b0 >> 2) & 3;
    if ty < 2 {
        match sf {
            0 | 2 => Some((ty, (b0 >> 3) as u32, None, None, 1)),
            1 => Some((ty, (b0 >> 4) as u32 | (*b.get(1)? as u32) << 4, None, None, 2)),
            _ => Some((ty, (b0 >> 4) as u32 | (*b.get(1)? as u32) << 4 | (*b.get(2)? as u32) << 12, None, None, 3)),
        }
    } else {
        let n = [3usize, 3, 4, 5][sf as usize];
        if b.len() < n {
            return None;
        }
        let mut v = 0u64;
        for (k, &x) in b.iter().take(n).enumerate() {
            v |= (x as u64) << (8 * k);
        }
        let bits = [10u32, 10, 14, 18][sf as usize];
        let mask = (1u64 << bits) - 1;
        Some((ty, ((v >> 4) & mask) as u32, Some(((v >> (4 + bits)) & mask) as u32), Some(if sf == 0 { 1 } else { 4 }), n as u8))
    }
}

/// item: header bit patterns. i < 2^24: the three low bytes exhaustively (covers every 1-, 2- and
/// 3-byte header); beyond: sampled 4- and 5-byte patterns.
fn literals_header_item(i: u64, ctx: &mut CaseCtx, seed: u64) -> CaseResult {
    let mut b = [0u8; 5];
    if i < (1 << 24) {
        b[0] = i as u8;
        b[1] = (i >> 8) as u8;
        b[2] = (i >> 16) as u8;
        let mut r = Rng(i);
        b[3] = r.next() as u8;
        b[4] = r.next() as u8;
    } else {
        let mut r = Rng(seed ^ i.wrapping_mul(0xD6E8FEB86659FD93));
        let v = r.next();
        for (k, x) in b.iter_mut().enumerate() {
            *x = (v >> (8 * k)) as u8;
        }
        // force compressed/treeless with 14 or 18 bit sizes, boundary-heavy
        b[0] = (b[0] & 0xF0) | 0b1000 | ((i & 1) as u8) << 2 | 2 | ((i >> 1) & 1) as u8;
        if i % 7 == 0 {
            b[1] = 0xFF;
            b[2] = 0xFF;
        }
        if i % 11 == 0 {
            b[3] = 0;
            b[4] = 0;
        }
    }
    let want = model_lit_header(&b).unwrap();
    let got = hk::parse_literals_header(&b);
    ensure!(got.as_ref().ok() == Some(&want), "litheader_meaning", "literals header {b:02x?}: parsed {got:?}, RFC says {want:?}");
    let need = want.4 as usize;
    for cut in 1..need {
        ensure!(hk::parse_literals_header(&b[..cut]).is_err(), "litheader_truncated", "truncated literals header {:02x?} accepted", &b[..cut]);
    }
    ctx.nontrivial = true;
    Ok(())
}

/// compressor-side literal header writers: every size through `raw_literals`, sampled sizes through
/// `compress_literals`; both read back by the decoder's parser and literal decoder
fn literals_writer_item(i: u64, ctx: &mut CaseCtx) -> CaseResult {
    let n = i as usize;
    if n <= 131_072 {
        let lits = vec![0x41u8; n];
        let sec = hk::raw_literals(&lits);
        let got = hk::parse_literals_header(&sec);
        ensure!(got == Ok((0, n as u32, None, None, 3)) && sec.len() == 3 + n, "litwriter_raw", "raw_literals({n}) header {:02x?} parsed as {got:?}", &sec[..3.min(sec.len())]);
        ctx.nontrivial = true;
        return Ok(());
    }
    // sampled compress_literals sizes
    let k = n - 131_073;
    let edges = [1025usize, 1026, 2047, 4096, 16_383, 16_384, 16_385, 65_535, 65_536, 131_071, 131_072];
    let mut r = Rng(k as u64);
    let size = if k < edges.len() * 3 {
        edges[k / 3] + k % 3 - (k % 3).min(1) * 2 * (k % 3 == 2) as usize
    } else {
        1025 + r.below(131_072 - 1025) as usize
    }
    .clamp(1025, 131_072);
    let alpha = 2 + r.below(60);
    let mut lits: Vec<u8> = (0..size).map(|_| (r.below(alpha) * r.below(alpha) / alpha.max(1)) as u8).collect();
    // at least two distinct byte values (single-valued literals are a different property's business: C16/F8)
    lits[0] = 0;
    lits[1] = 1;
    let (sec, _table) = hk::compress_literals(&lits, None);
    let hdr = hk::parse_literals_header(&sec).map_err(|e| Failure::new("litwriter_compressed", format!("compress_literals({size}) header unreadable: {e}")))?;
    ensure!(hdr.1 as usize == size, "litwriter_compressed", "compress_literals({size}): header says regenerated {}", hdr.1);
    if let Some(c) = hdr.2 {
        ensure!(hdr.4 as usize + c as usize == sec.len(), "litwriter_compressed", "compress_literals({size}): compressed size field {c} + header {} != section {}", hdr.4, sec.len());
    }
    let mut st = hk::HuffmanState::new();
    let (dec, used) = st.decode_literals_section(&sec).map_err(|e| Failure::new("litwriter_compressed", format!("compress_literals({size}) undecodable: {e}")))?;
    ensure!(dec == lits && used == sec.len(), "litwriter_compressed", "compress_literals({size}) does not round-trip (used {used} of {})", sec.len());
    ctx.nontrivial = true;
    ctx.feat(if hdr.0 == 2 { "litwriter:huffman" } else { "litwriter:rawfallback" });
    ctx.feat(match hdr.4 {
        3 => "litwriter:10bit",
        4 => "litwriter:14bit",
        _ => "litwriter:18bit",
    });
    Ok(())
}

const HIST_VALUES: [u32; 12] = [1, 2, 3, 4, 5, 8, 9, 100, 65_536, 1 << 20, (1 << 31) - 1, u32::MAX - 3];

fn offset_history_item(i: u64, ctx: &mut CaseCtx, seed: u64) -> CaseResult {
    // i indexes (h0,h1,h2) over HIST_VALUES^3; all offset values / literal-length cases inside
    let n = HIST_VALUES.len() as u64;
    let hist = if i < n * n * n {
        [HIST_VALUES[(i % n) as usize], HIST_VALUES[((i / n) % n) as usize], HIST_VALUES[(i / n / n) as usize]]
    } else {
        let mut r = Rng(seed ^ i);
        [(r.next() as u32).max(1), (r.next() as u32 >> r.below(31)).max(1), (r.next() as u32 >> r.below(31)).max(1)]
    };
    let mut values: Vec<u32> = vec![1, 2, 3, 4, 5, 6, 7, 8, 100, 131_075, u32::MAX];
    for e in 3..32 {
        values.push((1u32 << e) - 1);
        values.push(1u32 << e);
        values.push((1u32 << e) + 1);
    }
    let mut count = 0;
    for &v in &values {
        for ll in [0u32, 1, 131_071] {
            let mut h1 = hist;
            let mut h2 = hist;
            let got = hk::do_offset_history(v, ll, &mut h1);
            let want = resolve_offset(v, ll, &mut h2);
            ensure!(got == want && h1 == h2, "offset_history", "offset value {v}, ll {ll}, history {hist:?}: got offset {got} history {h1:?}, RFC says {want} {h2:?}");
            count += 1;
        }
    }
    ctx.weight = count;
    ctx.nontrivial = true;
    if i == 5 {
        ctx.sample = Some(json!({"history": hist, "offset_values": values.len(), "ll_cases": [0, 1, 131071]}));
    }
    Ok(())
}

fn run_stage(eng: &Engine, stage: &str) -> bool {
    let seed = eng.seed;
    let thorough = eng.tier == Tier::Thorough;
    match stage {
        "ll_codes" => eng.run_enumerated(stage, "every literal length 0..=131071", 131_072, 4096, ll_item),
        "ml_codes" => eng.run_enumerated(stage, "every match length 3..=131074", 131_072, 4096, ml_item),
        "of_codes_dense" => eng.run_enumerated(stage, "every offset value 1..2^20 (blocks of 4096)", 256, 1, of_dense_item),
        "of_codes_wide" => {
            if thorough {
                eng.run_enumerated(stage, "every offset value 1..2^32 (blocks of 65536)", 65_536, 16, move |i, c| of_wide_item(i, c, true, seed))
            } else {
                let r = eng.run_enumerated(stage, "offset values +-4 around every power of two, and 50M pseudo-random values", 32 + 763, 4, move |i, c| of_wide_item(i, c, false, seed));
                if let Some(s) = eng.stages.lock().unwrap().last_mut() {
                    s.exhaustive = false;
                }
                r
            }
        }
        "seq_count_writer" => eng.run_enumerated(stage, "every sequence count 1..=98047 through the compressor's writer", 98_047, 2048, seq_count_writer_item),
        "seq_count_parser" => eng.run_enumerated(stage, "every 1/2/3-byte sequence-count prefix (2^24 patterns, redundant ones skipped)", 1 << 24, 1 << 14, seq_count_parser_item),
        "extra_bits_triple" => eng.run_enumerated(stage, "extra-bit triples: offset bits 0..=31 x match-length bits 0..=16 x literal-length bits 0..=16 x 8 positions/streams", 32 * 17 * 17 * 8, 256, triple_item),
        "rle_mode_symbols" => eng.run_enumerated(stage, "RLE_Mode symbol byte: 3 tables x all 256 values", 3 * 256, 16, rle_symbol_item),
        "mode_transitions" => eng.run_enumerated(stage, "3 tables x every ordered triple of the 4 modes over three consecutive blocks x 4 value variants", 3 * 64 * 4, 16, mode_transition_item),
        "block_headers" => eng.run_enumerated(stage, "all 2^24 block headers", 1 << 24, 1 << 14, block_header_item),
        "block_header_writer" => eng.run_enumerated(stage, "block header writer: last x type x size 0..=131072", 131_073 * 3 * 2, 1 << 13, block_header_writer_item),
        "frame_headers" => eng.run_enumerated(stage, "all 256x256 (descriptor, window byte) pairs x 4 field fill patterns", 65_536 * 4, 1 << 11, frame_header_item),
        "frame_header_writer" => {
            let r = eng.run_enumerated(stage, "frame header writer over matcher window sizes up to 2^41", 2 * (160 + 64 + 4000), 256, move |i, c| frame_header_writer_item(i, c, seed));
            if let Some(s) = eng.stages.lock().unwrap().last_mut() {
                s.exhaustive = false;
            }
            r
        }
        "literals_headers" => {
            let sampled = eng.tier.pick(1 << 20, 1 << 25);
            let a = eng.run_enumerated("literals_headers", "all 2^24 three-byte literals header prefixes (every 1-, 2- and 3-byte header) + sampled 4/5-byte headers", (1 << 24) + sampled, 1 << 14, move |i, c| literals_header_item(i, c, seed));
            let n_comp = eng.tier.pick(200, 4000);
            let b = a && eng.run_enumerated("literals_writers", "raw_literals for every size 0..=131072; compress_literals at threshold and sampled sizes", 131_073 + n_comp, 64, literals_writer_item);
            if let Some(s) = eng.stages.lock().unwrap().last_mut() {
                s.exhaustive = false;
            }
            b
        }
        "offset_history" => {
            let extra = eng.tier.pick(20_000, 2_000_000);
            eng.run_enumerated(stage, "repeat-offset machine: all history triples over 12 values (+random) x 98 offset values x 3 literal-length cases", 1728 + extra, 64, move |i, c| offset_history_item(i, c, seed))
        }
        _ => false,
    }
}

/// "blocks above 128 KiB are refused" also where the size is not written in any header: the
/// regenerated size of a compressed block (literals + matches). Generator shared with C05.
fn check_forbidden_block(o: &crate::props::c05::OverLong, ctx: &mut CaseCtx) -> CaseResult {
    use ruzstd::decoding::FrameDecoder;
    let spec = crate::props::c05::overlong_spec(o);
    let out = crate::model::synth::synth(&spec, None, true);
    let over = out.max_block_regen > 128 * 1024;
    let mut dec = FrameDecoder::new();
    let mut buf = vec![0u8; out.content.len() + 16];
    let r = dec.decode_all(&out.bytes, &mut buf);
    if over {
        ensure!(r.is_err(), "forbidden_block_size_accepted", "a compressed block regenerating {} bytes (limit 131072) was decoded: {:?}", out.max_block_regen, r.as_ref().ok());
        ctx.feat("block:regenerates_more_than_128KiB_refused");
        ctx.feat_if(o.trailing > 0, "block:over_the_limit_only_with_literals_no_sequence_consumes");
    } else {
        match (crate::refz::decompress(&out.bytes, None, out.content.len() + 1), r) {
            (Ok(d), Ok(n)) if d == out.content => ensure!(buf[..n] == out.content[..], "valid_block_wrong", "block regenerating {} bytes decoded to different data", out.max_block_regen),
            (Ok(d), Err(e)) if d == out.content => fail!("legal_block_size_refused", "a block regenerating {} bytes (<= 131072) is refused: {e}", out.max_block_regen),
            _ => {
                ctx.feat("skipped:reference_rejects_for_other_reason");
                return Ok(());
            }
        }
        ctx.feat_if(out.max_block_regen > 130_000, "block:just_below_or_at_the_limit_accepted");
    }
    ctx.nontrivial = over || out.max_block_regen > 65_536;
    ctx.set_hash_bytes(&[&out.bytes]);
    Ok(())
}

/// "the compressor's and decompressor's mappings are mutual inverses" through the real writer: a
/// scripted matcher hands the block compressor sequences whose values cover the wide codes (offsets
/// of up to 23 bits, reached at every bit position of the stream), the specification walker and
/// this crate's decoder read the frame back: same (literal length, match length, offset) triples,
/// same content. The data are one repeated byte (any distance is a valid match) with a different
/// first byte per block (so that no block is stored as RLE).
#[derive(Clone, Debug, Serialize, Deserialize)]
pub struct WrittenCase {
    pub seed: u32,
    pub blocks: u8,
    pub per_block: u16,
    /// 0: offsets log-uniform over everything reachable; 1: only the widest reachable; 2: narrow (< 2^16)
    pub far: u8,
    pub long_lengths: bool,
}

fn written_strategy() -> impl Strategy<Value = WrittenCase> {
    (any::<u32>(), prop_oneof![3 => 2u8..=12, 2 => 12u8..=40, 1 => 40u8..=70], prop_oneof![1u16..=50, 50u16..=3000], 0u8..=2, prop::bool::weighted(0.2))
        .prop_map(|(seed, blocks, per_block, far, long_lengths)| WrittenCase { seed, blocks, per_block, far, long_lengths })
}

fn check_written(case: &WrittenCase, ctx: &mut CaseCtx) -> CaseResult {
    use crate::model::synth::Rng;
    use crate::props::c16::{BlockScript, Script, ScriptedMatcher, Seq};
    use ruzstd::encoding::{CompressionLevel, FrameCompressor};
    const BLK: usize = 128 * 1024;
    let nb = (case.blocks as usize).max(2);
    let mut data = vec![b'a'; nb * BLK - (case.seed as usize % 1000)];
    for k in 0..nb {
        data[k * BLK] = b'b';
    }
    let mut r = Rng(case.seed as u64 | 1);
    let mut blocks = vec![];
    let mut widest = 0u32;
    for k in 0..nb {
        let start = k * BLK;
        let end = ((k + 1) * BLK).min(data.len());
        let mut pos = start;
        let mut seqs: Vec<Seq> = vec![];
        while seqs.len() < case.per_block as usize {
            let ll = if seqs.is_empty() { 1 + r.below(3) as usize } else { r.below(4) as usize };
            let ml = if case.long_lengths && r.below(8) == 0 { 3 + r.below(70_000) as usize } else { 8 + r.below(60) as usize };
            let p = pos + ll;
            if p + ml > end || p < 2 {
                break;
            }
            let top = 63 - (p as u64).leading_zeros() as u64; // p >= 2^top
            let bits = match case.far % 3 {
                0 => r.below(top + 1),
                1 => top.saturating_sub(r.below(2)),
                _ => r.below(top.min(15) + 1),
            };
            let lo = 1u64 << bits;
            let mut d = (lo + r.below(lo)).min(p as u64 - 1).max(1) as usize;
            // the source run must not contain a block's first byte
            let s = p - d;
            let e = s + ml.min(d);
            let m = s.div_ceil(BLK) * BLK;
            if m < e {
                if p <= m + 1 {
                    break;
                }
                d = p - (m + 1);
            }
            widest = widest.max(32 - (d as u32 + 3).leading_zeros());
            seqs.push(Seq { ll: ll as u32, ml: ml as u32, off: d as u32 });
            pos = p + ml;
        }
        blocks.push(BlockScript { len: end - start, seqs });
    }
    let script = std::rc::Rc::new(Script { data, blocks, window: (nb * BLK) as u64 });
    let (matcher, desync) = ScriptedMatcher::new(script.clone());
    let mut comp: FrameCompressor<&[u8], Vec<u8>, ScriptedMatcher> = FrameCompressor::new_with_matcher(matcher, CompressionLevel::Fastest);
    comp.set_source(&script.data[..]);
    comp.set_drain(Vec::new());
    comp.compress();
    let out = comp.take_drain().unwrap();
    if desync.get().is_some() {
        return Err(Failure::new("machinery", "the compressor did not follow the matcher protocol (C16's subject)"));
    }
    let info = frame::walk(&out, &Default::default()).map_err(|e| Failure::new("written_sequences_unreadable", format!("the specification cannot read the frame the compressor wrote: {e}; script of {} blocks, seed {}", nb, case.seed)))?;
    let data_blocks: Vec<&frame::Block> = info.blocks.iter().filter(|b| b.regen > 0).collect();
    ensure!(data_blocks.len() == script.blocks.len(), "written_block_count", "{} non-empty blocks for {} scripted ones", data_blocks.len(), script.blocks.len());
    let mut compared = 0usize;
    for (i, (b, sc)) in data_blocks.iter().zip(script.blocks.iter()).enumerate() {
        if b.btype != 2 {
            continue;
        }
        let got: Vec<Seq> = b.seq.as_ref().map(|q| q.seqs.iter().map(|x| Seq { ll: x.ll, ml: x.ml, off: x.offset }).collect()).unwrap_or_default();
        if got != sc.seqs {
            let at = got.iter().zip(sc.seqs.iter()).take_while(|(a, b)| a == b).count();
            fail!("written_sequence_differs", "block #{i}: sequence #{at} was handed to the compressor as {:?} and is read back from the frame as {:?} ({} of {} sequences)", sc.seqs.get(at), got.get(at), got.len(), sc.seqs.len());
        }
        compared += got.len();
    }
    let mut dec = ruzstd::decoding::FrameDecoder::new();
    let mut buf = vec![0u8; script.data.len() + 16];
    match dec.decode_all(&out, &mut buf) {
        Ok(n) => ensure!(buf[..n] == script.data[..], "written_frame_wrong_data", "the decoder restores {} bytes that differ from the {} bytes compressed", n, script.data.len()),
        Err(e) => fail!("written_frame_rejected", "the decoder rejects the frame the compressor wrote: {e}"),
    }
    ctx.feat_if(widest >= 18, "offset_value:18+_bits");
    ctx.feat_if(widest >= 21, "offset_value:21+_bits");
    ctx.feat_if(widest >= 23, "offset_value:23+_bits");
    ctx.feat_if(compared >= 10_000, "sequences_compared:10000+");
    ctx.feat_if(case.long_lengths, "lengths:up_to_70000");
    ctx.nontrivial = compared > 0 && widest >= 17;
    ctx.set_hash_bytes(&[&case.seed.to_le_bytes(), &[case.blocks, case.far], &case.per_block.to_le_bytes()]);
    Ok(())
}

pub fn run(eng: &Engine) {
    eng.set_rule("exhaustive enumeration of finite sub-domains (each listed with its size); every enumerated value is a real, distinct case (counted by index, not hashed); sampled sub-domains are marked exhaustive=false; plus two generated stages: (compressor_written_sequences) sequence lists with offsets of up to 23 bits and lengths up to 70 000 handed to the real block compressor by a scripted matcher over one-byte-value data, read back from the frame by the specification walker (same triples) and by the decoder (same content); (forbidden_block_sizes): synthesized frames with a compressed block whose regenerated size lies around / far above 128 KiB (reached through max-length matches, 20-bit literals, or literals no sequence consumes) - above the limit the decoder must refuse, at or below it decode correctly");
    eng.assume("tables and rules transcribed from RFC 8878 in the harness, cross-checked at start against the constant arrays in libzstd 1.5.7's source");
    eng.assume("reserved patterns (reserved descriptor bit, reserved mode bits) are not asserted");
    eng.assume("frame-header writer domain: matcher windows 1..=2^41 (larger windows are not representable by the writer's exponent-only descriptor)");
    selftest::code_tables(eng);
    for s in STAGES {
        if !run_stage(eng, s) {
            return;
        }
    }
    let n = eng.tier.pick(3_000, 60_000);
    eng.run_stage("forbidden_block_sizes", n, crate::props::c05::overlong_strategy, check_forbidden_block);
    let nw = eng.tier.pick(1_500, 30_000);
    eng.run_stage("compressor_written_sequences", nw, written_strategy, check_written);
}

pub fn replay(eng: &Engine, stage: &str, case: &Value) -> CaseResult {
    if stage == "forbidden_block_sizes" {
        return eng.replay_value(stage, case, check_forbidden_block);
    }
    if stage == "compressor_written_sequences" {
        return eng.replay_value(stage, case, check_written);
    }
    let i = case["index"].as_u64().ok_or_else(|| Failure::new("machinery", "C14 case must carry an index"))?;
    let mut ctx = CaseCtx::default();
    let seed = case["seed"].as_u64().unwrap_or(eng.seed);
    let thorough = case["tier"].as_str().map(|t| t == "thorough").unwrap_or(eng.tier == Tier::Thorough);
    match stage {
        "ll_codes" => ll_item(i, &mut ctx),
        "ml_codes" => ml_item(i, &mut ctx),
        "of_codes_dense" => of_dense_item(i, &mut ctx),
        "of_codes_wide" => of_wide_item(i, &mut ctx, thorough, seed),
        "seq_count_writer" => seq_count_writer_item(i, &mut ctx),
        "seq_count_parser" => seq_count_parser_item(i, &mut ctx),
        "extra_bits_triple" => triple_item(i, &mut ctx),
        "rle_mode_symbols" => rle_symbol_item(i, &mut ctx),
        "mode_transitions" => mode_transition_item(i, &mut ctx),
        "block_headers" => block_header_item(i, &mut ctx),
        "block_header_writer" => block_header_writer_item(i, &mut ctx),
        "frame_headers" => frame_header_item(i, &mut ctx),
        "frame_header_writer" => frame_header_writer_item(i, &mut ctx, seed),
        "literals_headers" => literals_header_item(i, &mut ctx, seed),
        "literals_writers" => literals_writer_item(i, &mut ctx),
        "offset_history" => offset_history_item(i, &mut ctx, seed),
        _ => Err(Failure::new("machinery", format!("unknown stage {stage}"))),
    }
}
