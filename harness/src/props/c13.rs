//! C13 Huffman tables are valid and literal coding round-trips for every distribution.

use crate::engine::{CaseCtx, CaseResult, Engine, Failure, Tier};
use crate::model::fse;
use crate::model::huf;
use crate::model::synth::Rng;
use crate::{ensure, fail};
use proptest::prelude::*;
use ruzstd::huff0::huff0_encoder::{verif as enc, HuffmanTable as EncTable};
use ruzstd::huff0::HuffmanTable as DecTable;
use ruzstd::verif_hooks as hk;
use serde::{Deserialize, Serialize};
use serde_json::{json, Value};

// ---------------------------------------------------------------------------------------------
// encoder side

#[derive(Clone, Debug, Serialize, Deserialize)]
pub struct EncCase {
    /// number of distinct byte values 2..=256
    pub n: u16,
    /// rank order: 0 random, 1 sorted ascending, 2 descending, 3 ties (all equal), 4 few distinct counts
    pub order: u8,
    /// placement of unused symbols: 0 dense from 0, 1 sparse, 2 ends at 255, 3 random gaps
    pub placement: u8,
    pub seed: u32,
    /// literal string length
    pub len: u32,
}

fn counts_for(c: &EncCase) -> Vec<usize> {
    let n = (c.n as usize).clamp(2, 256);
    let mut r = Rng(c.seed as u64);
    // choose which symbols are present
    let mut present: Vec<usize> = match c.placement % 4 {
        0 => (0..n).collect(),
        1 => {
            let step = (256 / n).max(1);
            (0..n).map(|i| (i * step).min(255 - (n - 1 - i))).collect()
        }
        2 => (256 - n..256).collect(),
        _ => {
            let mut all: Vec<usize> = (0..256).collect();
            for i in (1..256).rev() {
                let j = r.below(i as u64 + 1) as usize;
                all.swap(i, j);
            }
            let mut p = all[..n].to_vec();
            p.sort();
            p
        }
    };
    present.dedup();
    let max = *present.last().unwrap();
    let mut counts = vec![0usize; max + 1];
    for (k, &s) in present.iter().enumerate() {
        counts[s] = match c.order % 5 {
            0 => 1 + r.below(100_000) as usize,
            1 => 1 + k * 3,
            2 => 1 + (present.len() - k) * 3,
            3 => 7,
            _ => 1 + r.below(4) as usize * 1000,
        };
    }
    counts
}

fn check_code(codes: &[(u32, u8)], counts: &[usize], what: &str) -> CaseResult {
    let mut kraft: u64 = 0;
    for (s, &(code, nb)) in codes.iter().enumerate() {
        let present = counts.get(s).copied().unwrap_or(0) > 0;
        ensure!(present == (nb > 0), "huffman_code_for_wrong_symbols", "{what}: symbol {s} present={present} but code length {nb}");
        if nb > 0 {
            ensure!(nb <= 11, "huffman_depth", "{what}: symbol {s} has a code of {nb} bits (> 11)");
            ensure!((code as u64) < (1u64 << nb), "huffman_code_value", "{what}: symbol {s}: code {code} does not fit {nb} bits");
            kraft += 1u64 << (11 - nb);
        }
    }
    ensure!(kraft == 1 << 11, "huffman_not_complete", "{what}: Kraft sum is {kraft}/2048 (not a complete prefix code)");
    // prefix-freeness, directly
    let present: Vec<(u32, u8)> = codes.iter().copied().filter(|c| c.1 > 0).collect();
    let mut sorted = present.clone();
    sorted.sort_by_key(|&(c, nb)| ((c as u64) << (11 - nb), nb));
    for w in sorted.windows(2) {
        let (a, an) = w[0];
        let (b, bn) = w[1];
        let m = an.min(bn);
        ensure!((a >> (an - m)) != (b >> (bn - m)), "huffman_not_prefix_free", "{what}: codes {a:#b}/{an} and {b:#b}/{bn} are prefixes of one another");
    }
    Ok(())
}

fn check_enc(c: &EncCase, ctx: &mut CaseCtx) -> CaseResult {
    let counts = counts_for(c);
    let n = counts.iter().filter(|&&x| x > 0).count();
    let table = EncTable::build_from_counts(&counts);
    let codes = enc::codes(&table);
    let what = format!("alphabet of {n} symbols (order {}, placement {})", c.order % 5, c.placement % 4);
    check_code(&codes, &counts, &what)?;
    // weight description
    let desc = enc::write_table(&table);
    ensure!(!desc.is_empty(), "huffman_description_empty", "{what}: empty description");
    if desc[0] < 128 {
        ensure!(desc[0] as usize + 1 == desc.len(), "huffman_description_size_byte", "{what}: size byte {} but {} bytes follow", desc[0], desc.len() - 1);
        ctx.feat("desc:fse_compressed");
    } else {
        ctx.feat("desc:direct");
    }
    // the specification reads the description to the same code lengths
    let (mt, used_m, _) = huf::read_description(&desc).map_err(|e| Failure::new("huffman_description_invalid", format!("{what}: the description the compressor wrote is invalid: {e}; bytes {:02x?}", &desc[..desc.len().min(24)])))?;
    ensure!(used_m == desc.len(), "huffman_description_length", "{what}: description has {} bytes, specification reads {used_m}", desc.len());
    let enc_bits: Vec<u8> = codes.iter().map(|c| c.1).collect();
    ensure!(mt.nbits == enc_bits, "huffman_description_differs", "{what}: description reads back to code lengths {:?}, compressor uses {:?}", mt.nbits, enc_bits);
    for (s, &(code, nb)) in codes.iter().enumerate() {
        ensure!(nb == 0 || mt.codes[s] as u32 == code, "huffman_code_not_canonical", "{what}: symbol {s}: compressor code {code:#b}/{nb}, canonical code {:#b}", mt.codes[s]);
    }
    // this crate's decoder: same table, exact consumption (trailing bytes untouched)
    let mut src = desc.clone();
    src.extend_from_slice(&[0xEE; 3]);
    let mut dt = DecTable::new();
    let used = dt.build_decoder(&src).map_err(|e| Failure::new("huffman_description_rejected", format!("{what}: decoder rejects the compressor's description: {e}")))?;
    ensure!(used as usize == desc.len(), "huffman_description_length", "{what}: description has {} bytes, decoder consumed {used}", desc.len());
    compare_dec_table(&dt, &mt, &what)?;
    // literal streams
    let mut r = Rng(c.seed as u64 ^ 0x51);
    let present: Vec<u8> = (0..counts.len()).filter(|&s| counts[s] > 0).map(|s| s as u8).collect();
    let len = (c.len as usize).max(1);
    let lits: Vec<u8> = (0..len).map(|i| if i < present.len() { present[i] } else { present[(r.below(present.len() as u64) * r.below(present.len() as u64) / present.len() as u64) as usize] }).collect();
    // 1 stream (with table) through the hook, decoded by the specification
    {
        let bytes = enc::encode(&table, &lits, true);
        let (t2, used, _) = huf::read_description(&bytes).map_err(|e| Failure::new("huffman_stream_invalid", format!("{what}: {e}")))?;
        let mut out = vec![];
        huf::decode_stream(&t2, &bytes[used..], &mut out, lits.len()).map_err(|e| Failure::new("huffman_stream_invalid", format!("{what}: 1-stream encoding of {} literals: {e}", lits.len())))?;
        ensure!(out == lits, "huffman_1stream_roundtrip", "{what}: 1-stream encoding of {} literals decodes to {} (spec decoder)", lits.len(), out.len());
    }
    // 4 streams through the hook (the compressor uses them from 6 literals on): jump table + streams,
    // specification decodes
    if lits.len() >= 6 {
        let bytes = enc::encode4x(&table, &lits, true);
        let (t2, used, _) = huf::read_description(&bytes).map_err(|e| Failure::new("huffman_stream_invalid", format!("{what}: {e}")))?;
        let b = &bytes[used..];
        ensure!(b.len() >= 6, "huffman_4stream_layout", "{what}: 4-stream body of {} bytes", b.len());
        let s1 = b[0] as usize | (b[1] as usize) << 8;
        let s2 = b[2] as usize | (b[3] as usize) << 8;
        let s3 = b[4] as usize | (b[5] as usize) << 8;
        let rest = &b[6..];
        ensure!(s1 + s2 + s3 < rest.len(), "huffman_4stream_layout", "{what}: jump table {s1}+{s2}+{s3} vs {} stream bytes", rest.len());
        let per = lits.len().div_ceil(4);
        let bounds = [0, s1, s1 + s2, s1 + s2 + s3, rest.len()];
        let mut out = vec![];
        for i in 0..4 {
            let before = out.len();
            huf::decode_stream(&t2, &rest[bounds[i]..bounds[i + 1]], &mut out, lits.len()).map_err(|e| Failure::new("huffman_stream_invalid", format!("{what}: stream {i} of {} literals: {e}", lits.len())))?;
            let want = if i < 3 { per } else { lits.len() - 3 * per.min(lits.len() / 3 + 1).min(per) };
            let _ = want;
            if i < 3 {
                ensure!(out.len() - before == per.min(lits.len() - before), "huffman_4stream_split", "{what}: stream {i} carries {} literals, the format requires {}", out.len() - before, per);
            }
        }
        ensure!(out == lits, "huffman_4stream_roundtrip", "{what}: 4-stream encoding of {} literals decodes to {} (spec decoder)", lits.len(), out.len());
        // ... and this crate's literals-section decoder reads the same streams (for every size from
        // 6 literals on: with 6 and 9 literals the last stream holds nothing but its end mark)
        if lits.len() < (1 << 18) && bytes.len() < (1 << 18) {
            let (sf, bits, hlen) = if lits.len() < 1024 && bytes.len() < 1024 { (1u64, 10, 3) } else if lits.len() < (1 << 14) && bytes.len() < (1 << 14) { (2, 14, 4) } else { (3, 18, 5) };
            let h: u64 = 2 | (sf << 2) | ((lits.len() as u64) << 4) | ((bytes.len() as u64) << (4 + bits));
            let mut sec = h.to_le_bytes()[..hlen].to_vec();
            sec.extend_from_slice(&bytes);
            let mut st = hk::HuffmanState::new();
            let (dec, used) = st.decode_literals_section(&sec).map_err(|e| Failure::new("literals_section_undecodable", format!("{what}: 4-stream section of {} literals (last stream: {} literals): {e}", lits.len(), lits.len() - (3 * per).min(lits.len()))))?;
            ensure!(dec == lits && used == sec.len(), "literals_section_roundtrip", "{what}: 4-stream section of {} literals decodes to {} literals using {used} of {} bytes", lits.len(), dec.len(), sec.len());
            ctx.feat_if(lits.len() <= 3 * per, "4streams:last_stream_empty");
            ctx.feat(["", "4streams:header_10bit_sizes", "4streams:header_14bit_sizes", "4streams:header_18bit_sizes"][sf as usize]);
        }
        // one stream in a section of its own (size format 0)
        if lits.len() < 1024 {
            let one = enc::encode(&table, &lits, true);
            if one.len() < 1024 {
                let h: u32 = 2 | ((lits.len() as u32) << 4) | ((one.len() as u32) << 14);
                let mut sec = h.to_le_bytes()[..3].to_vec();
                sec.extend_from_slice(&one);
                let mut st = hk::HuffmanState::new();
                let (dec, used) = st.decode_literals_section(&sec).map_err(|e| Failure::new("literals_section_undecodable", format!("{what}: 1-stream section of {} literals: {e}", lits.len())))?;
                ensure!(dec == lits && used == sec.len(), "literals_section_roundtrip", "{what}: 1-stream section of {} literals decodes to {} literals using {used} of {} bytes", lits.len(), dec.len(), sec.len());
                ctx.feat("1stream:section_decoded_by_the_crate");
            }
        }
    }
    // production path: compress_literals -> this crate's literal section decoder (incl. treeless reuse)
    if lits.len() > 1024 {
        let (sec, new_table) = hk::compress_literals(&lits, None);
        let mut st = hk::HuffmanState::new();
        let (dec, used) = st.decode_literals_section(&sec).map_err(|e| Failure::new("literals_section_undecodable", format!("{what}: {} literals: {e}", lits.len())))?;
        ensure!(dec == lits && used == sec.len(), "literals_section_roundtrip", "{what}: literals section of {} literals decodes to {} using {used} of {} bytes", lits.len(), dec.len(), sec.len());
        ctx.feat(if sec[0] & 3 == 2 { "section:huffman" } else { "section:raw_fallback" });
        if let Some(t) = new_table {
            // second section over the same alphabet against the previous table: treeless or new
            let lits2: Vec<u8> = lits.iter().rev().copied().collect();
            let (sec2, _) = hk::compress_literals(&lits2, Some(&t));
            let (dec2, used2) = st.decode_literals_section(&sec2).map_err(|e| Failure::new("literals_section_undecodable", format!("{what}: second section (type {}): {e}", sec2[0] & 3)))?;
            ensure!(dec2 == lits2 && used2 == sec2.len(), "literals_section_roundtrip", "{what}: second literals section (type {}) does not round-trip", sec2[0] & 3);
            ctx.feat_if(sec2[0] & 3 == 3, "section:treeless_reuse");
        }
    }
    let sorted = c.order % 5 == 1;
    ctx.nontrivial = n >= 3 && !sorted;
    let mut key = vec![];
    for (s, &cnt) in counts.iter().enumerate() {
        if cnt > 0 {
            key.push(s as u8);
            key.push(codes[s].1);
        }
    }
    ctx.set_hash_bytes(&[&key]);
    ctx.feat(match n {
        2..=16 => "alphabet:2-16",
        17..=128 => "alphabet:17-128",
        _ => "alphabet:129-256",
    });
    if ctx.nontrivial && n <= 6 {
        ctx.sample = Some(json!({"counts": counts, "code_lengths": enc_bits, "description": desc}));
    }
    Ok(())
}

fn compare_dec_table(dt: &DecTable, mt: &huf::HufTable, what: &str) -> CaseResult {
    ensure!(dt.max_num_bits == mt.max_bits, "huffman_max_bits", "{what}: decoder max bits {}, specification {}", dt.max_num_bits, mt.max_bits);
    let entries = dt.verif_entries();
    ensure!(entries.len() == mt.dtable.len(), "huffman_table_size", "{what}: decoder table has {} entries, specification {}", entries.len(), mt.dtable.len());
    for (i, (g, w)) in entries.iter().zip(mt.dtable.iter()).enumerate() {
        ensure!(g == w, "huffman_table_entry", "{what}: table index {i}: decoder (symbol {}, bits {}), canonical table (symbol {}, bits {})", g.0, g.1, w.0, w.1);
    }
    Ok(())
}

// ---------------------------------------------------------------------------------------------
// decoder side: weight descriptions

fn check_direct_weights(weights: &[u8], ctx: &mut CaseCtx) -> CaseResult {
    let desc = match huf::write_direct(weights) {
        Some(d) => d,
        None => return Ok(()),
    };
    let model = huf::table_from_partial_weights(weights);
    let mut dt = DecTable::new();
    let mut src = desc.clone();
    src.extend_from_slice(&[0x11; 2]);
    let got = dt.build_decoder(&src);
    match (&model, &got) {
        (Ok(mt), Ok(used)) => {
            ensure!(*used as usize == desc.len(), "huffman_description_length", "weights {weights:?}: {} bytes, decoder consumed {used}", desc.len());
            compare_dec_table(&dt, mt, &format!("weights {weights:?}"))?;
            ctx.feat("weights:valid_accepted");
        }
        (Err(_), Err(_)) => ctx.feat("weights:invalid_rejected"),
        (Ok(_), Err(e)) => fail!("valid_weights_rejected", "weights {weights:?} form a complete code but are rejected: {e}"),
        (Err(why), Ok(_)) => fail!("invalid_weights_accepted", "weights {weights:?} are accepted although {why}"),
    }
    Ok(())
}

/// item index -> direct weights: length 1..=6 over 0..=11, exhaustively (12 + 12^2 + ... + 12^6)
fn direct_item(mut i: u64, ctx: &mut CaseCtx) -> CaseResult {
    for len in 1..=6u32 {
        let n = 12u64.pow(len);
        if i < n {
            let mut w = vec![];
            for _ in 0..len {
                w.push((i % 12) as u8);
                i /= 12;
            }
            ctx.nontrivial = true;
            return check_direct_weights(&w, ctx);
        }
        i -= n;
    }
    Ok(())
}

#[derive(Clone, Debug, Serialize, Deserialize)]
pub struct DescCase {
    pub n: u16,
    pub seed: u32,
    /// 0 valid random code, 1 valid then one weight perturbed (mostly invalid), 2 weight > 11 planted
    pub kind: u8,
    pub fse: bool,
}

fn check_desc(c: &DescCase, ctx: &mut CaseCtx) -> CaseResult {
    let n = (c.n as usize).clamp(2, 256);
    let mut r = Rng(c.seed as u64);
    // random complete code over n symbols: split leaves
    let mut lens: Vec<u8> = vec![1, 1];
    while lens.len() < n {
        let cands: Vec<usize> = (0..lens.len()).filter(|&i| lens[i] < 11).collect();
        let i = cands[r.below(cands.len() as u64) as usize];
        lens[i] += 1;
        let l = lens[i];
        lens.push(l);
    }
    for i in (1..lens.len()).rev() {
        let j = r.below(i as u64 + 1) as usize;
        lens.swap(i, j);
    }
    let max_bits = *lens.iter().max().unwrap();
    // place the n symbols into 0..=maxsym with gaps
    let maxsym = (n - 1 + r.below((256 - n) as u64 + 1) as usize).min(255);
    let mut slots: Vec<usize> = (0..maxsym).collect();
    for i in (1..slots.len()).rev() {
        let j = r.below(i as u64 + 1) as usize;
        slots.swap(i, j);
    }
    let mut chosen: Vec<usize> = slots[..n - 1].to_vec();
    chosen.push(maxsym);
    chosen.sort();
    let mut weights = vec![0u8; maxsym + 1];
    for (k, &s) in chosen.iter().enumerate() {
        weights[s] = max_bits + 1 - lens[k];
    }
    let mut partial = weights[..maxsym].to_vec();
    match c.kind % 3 {
        1 => {
            let i = r.below(partial.len() as u64) as usize;
            partial[i] = (partial[i] + 1 + r.below(3) as u8) % 12;
        }
        2 => {
            let i = r.below(partial.len() as u64) as usize;
            partial[i] = 12 + r.below(4) as u8;
        }
        _ => {}
    }
    // serialise: direct (<= 128 weights, weights < 16) or FSE-compressed by the model writer
    let desc = if !c.fse && partial.len() <= 128 && partial.iter().all(|&w| w < 16) {
        huf::write_direct(&partial)
    } else {
        let mut wc = [0u32; 16];
        for &x in &partial {
            wc[x.min(15) as usize] += 1;
        }
        let support: Vec<(u8, u32, bool)> = (0..16u8).filter(|&s| wc[s as usize] > 0).map(|s| (s, wc[s as usize], false)).collect();
        let mut sup = support;
        if sup.len() == 1 {
            sup.push((if sup[0].0 == 0 { 1 } else { 0 }, 1, false));
        }
        let nc = fse::make_ncount(6, &sup);
        huf::write_fse(&partial, &nc).or_else(|| huf::write_direct(&partial))
    };
    let Some(desc) = desc else {
        ctx.feat("skipped:not_serialisable");
        return Ok(());
    };
    let model = huf::read_description(&desc);
    let mut dt = DecTable::new();
    let mut src = desc.clone();
    src.extend_from_slice(&[0x77; 3]);
    let got = dt.build_decoder(&src);
    match (&model, &got) {
        (Ok((mt, used_m, was_fse)), Ok(used)) => {
            ensure!(*used as usize == *used_m && *used_m == desc.len(), "huffman_description_length", "description of {} bytes: decoder consumed {used}, specification {used_m}", desc.len());
            compare_dec_table(&dt, mt, &format!("{} weights", partial.len()))?;
            ctx.feat(if *was_fse { "desc:fse_valid" } else { "desc:direct_valid" });
            ctx.nontrivial = *was_fse || n >= 3;
        }
        (Err(_), Err(_)) => {
            ctx.feat("desc:invalid_rejected");
            ctx.nontrivial = true;
        }
        (Ok(_), Err(e)) => fail!("valid_weights_rejected", "a valid description of {} weights ({:02x?}…) is rejected: {e}", partial.len(), &desc[..desc.len().min(16)]),
        (Err(why), Ok(_)) => fail!("invalid_weights_accepted", "a description of {} weights is accepted although {why}; weights {:?}", partial.len(), &partial[..partial.len().min(40)]),
    }
    ctx.set_hash_bytes(&[&desc]);
    Ok(())
}

pub fn run(eng: &Engine) {
    eng.set_rule("(encoder) every alphabet size 2..=256 in every run x rank orders (random, ascending, descending, all ties, few distinct counts) x placements of unused symbols (dense, sparse, ending at 255, random gaps): code from HuffmanTable::build_from_counts is complete (Kraft sum exactly 1), depth <= 11, prefix-free, no code for absent symbols, canonical; its description (direct or FSE-compressed with size byte < 128) parses back - in the specification and in this crate's decoder, consuming exactly the bytes written - to the same code lengths and the canonical table (every index of the 2^maxbits table); 1- and 4-stream encodings decode to the same literals, stream split as the format requires; production path compress_literals (+ treeless reuse) -> literal section decoder; (decoder) every direct description of 1..6 weights over 0..11 exhaustively and generated descriptions up to 255 weights (direct and FSE-compressed by the model writer; valid, perturbed, weight > 11): accept/reject and table == specification; non-trivial = n >= 3 with an unsorted rank order / FSE-compressed or >= 3 symbols / any invalid description; distinct by code-shape hash");
    eng.assume("descriptions with more than 255 weights through the FSE path are not generated (the decoder is lenient there)");
    // all 255 alphabet sizes in every run, several orders each
    let reps = eng.tier.pick(200, 6_000);
    let total = 255 * reps;
    let seed = eng.seed;
    eng.run_enumerated("encoder_all_alphabet_sizes", "alphabet sizes 2..=256 x orders x placements x seeds (all 255 sizes present; orders/placements sampled)", total, 64, move |i, c| {
        let n = 2 + (i % 255) as u16;
        let k = i / 255;
        let mut r = Rng(seed ^ i.wrapping_mul(0x9E3779B97F4A7C15));
        let case = EncCase {
            n,
            order: (k % 5) as u8,
            placement: ((k / 5) % 4) as u8,
            seed: r.next() as u32,
            len: [1u32, 3, 4, 5, 6, 7, 9, 10, 100, 1025, 1030, 5000, 20_000][(r.below(13)) as usize] + r.below(3) as u32,
        };
        check_enc(&case, c)
    });
    if let Some(s) = eng.stages.lock().unwrap().last_mut() {
        s.exhaustive = false;
    }
    let n_long = eng.tier.pick(2_000, 40_000);
    eng.run_stage(
        "encoder_long_literals",
        n_long,
        || (2u16..=256, 0u8..=4, 0u8..=3, any::<u32>(), prop_oneof![1025u32..=20_000, 16_380u32..=16_390, 20_000u32..=200_000]).prop_map(|(n, order, placement, seed, len)| EncCase { n, order, placement, seed, len }),
        check_enc,
    );
    let direct_total: u64 = (1..=6u32).map(|l| 12u64.pow(l)).sum();
    let (dt, dd) = if eng.tier == Tier::Quick {
        ((1..=5u32).map(|l| 12u64.pow(l)).sum::<u64>(), "every direct weight description of 1..=5 weights over weights 0..=11 (1..=6 in the thorough tier)")
    } else {
        (direct_total, "every direct weight description of 1..=6 weights over weights 0..=11")
    };
    eng.run_enumerated("decoder_direct_weights", dd, dt, 4096, direct_item);
    let n_desc = eng.tier.pick(200_000, 3_000_000);
    eng.run_stage("decoder_descriptions", n_desc, || (2u16..=256, any::<u32>(), 0u8..=2, any::<bool>()).prop_map(|(n, seed, kind, fse)| DescCase { n, seed, kind, fse }), check_desc);
}

pub fn replay(eng: &Engine, stage: &str, case: &Value) -> CaseResult {
    match stage {
        "encoder_long_literals" => eng.replay_value(stage, case, check_enc),
        "decoder_descriptions" => eng.replay_value(stage, case, check_desc),
        "decoder_direct_weights" => {
            let i = case["index"].as_u64().ok_or_else(|| Failure::new("machinery", "index missing"))?;
            let mut ctx = CaseCtx::default();
            direct_item(i, &mut ctx)
        }
        "encoder_all_alphabet_sizes" => {
            let i = case["index"].as_u64().ok_or_else(|| Failure::new("machinery", "index missing"))?;
            let seed = case["seed"].as_u64().unwrap_or(eng.seed);
            let n = 2 + (i % 255) as u16;
            let k = i / 255;
            let mut r = Rng(seed ^ i.wrapping_mul(0x9E3779B97F4A7C15));
            let c = EncCase {
                n,
                order: (k % 5) as u8,
                placement: ((k / 5) % 4) as u8,
                seed: r.next() as u32,
                len: [1u32, 3, 4, 5, 6, 7, 100, 1025, 1030, 5000, 20_000][(r.below(11)) as usize] + r.below(3) as u32,
            };
            let mut ctx = CaseCtx::default();
            check_enc(&c, &mut ctx)
        }
        _ => Err(Failure::new("machinery", format!("unknown stage {stage}"))),
    }
}
