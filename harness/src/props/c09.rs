//! C09 Dictionary frames decode correctly; a missing dictionary is an error.

use crate::engine::{CaseCtx, CaseResult, Engine, Failure, Tier};
use crate::gen::data::{data_strategy, DataSpec};
use crate::gen::dicts::{dict_strategy, related_strategy, BuiltDict, DictSpec, RelatedData};
use crate::gen::framespec::framespec_strategy;
use crate::gen::refcfg::refcfg_strategy;
use crate::model::frame::{self, Dict, WalkOpts};
use crate::model::synth::{synth, BlockSpec, FrameSpec, OffSpec};
use crate::props::c01::{first_diff, hexhead};
use crate::refz::{self, RefCfg};
use crate::{ensure, fail};
use proptest::prelude::*;
use ruzstd::decoding::errors::FrameDecoderError;
use ruzstd::decoding::{BlockDecodingStrategy, Dictionary, FrameDecoder, StreamingDecoder};
use serde::{Deserialize, Serialize};
use serde_json::{json, Value};
use std::io::Read;
use std::sync::atomic::{AtomicU64, Ordering};

static SYNTH_REJ: AtomicU64 = AtomicU64::new(0);
static SYNTH_OK: AtomicU64 = AtomicU64::new(0);

#[derive(Clone, Debug, Serialize, Deserialize)]
pub enum DFrame {
    /// reference-compressed with dictionary `which` (0 = A, 1 = B when present, 2 = none)
    Ref { data: RelatedData, plain: DataSpec, cfg: RefCfg, which: u8, driver: u8 },
    /// synthesized against the dictionary's entropy tables / offsets / content
    Synth { spec: FrameSpec, which: u8, driver: u8 },
    /// frame naming dictionary A, decoded by a decoder that was not given it
    Missing { data: RelatedData, cfg: RefCfg, front: u8 },
    /// synthesized INVALID frame: one match reaches k+1 bytes beyond dictionary + output
    Beyond { spec: FrameSpec, which: u8, k: u8 },
}

#[derive(Clone, Debug, Serialize, Deserialize)]
pub struct Case {
    pub dict_a: DictSpec,
    pub dict_b: Option<DictSpec>,
    pub frames: Vec<DFrame>,
    /// an older edition of dictionary A (other tables, other content, SAME id) was registered
    /// first and then replaced by registering A under the same id
    #[serde(default)]
    pub superseded: bool,
}

fn dframe_strategy(tier: Tier) -> impl Strategy<Value = DFrame> {
    let max_len = if tier == Tier::Quick { 60_000 } else { 600_000 };
    let cfg = || {
        (refcfg_strategy(17), prop_oneof![Just(0u32), 10u32..=14]).prop_map(|(mut c, w)| {
            if w != 0 {
                c.window_log = w;
                c.ldm = false;
            }
            c
        })
    };
    prop_oneof![
        8 => (related_strategy(max_len), data_strategy(20_000), cfg(), 0u8..=2, 0u8..=2).prop_map(|(data, plain, cfg, which, driver)| DFrame::Ref { data, plain, cfg, which, driver }),
        5 => (framespec_strategy(6, 200, false), 0u8..=2, 0u8..=2).prop_map(|(spec, which, driver)| DFrame::Synth { spec, which, driver }),
        2 => (related_strategy(4000), cfg(), 0u8..=3).prop_map(|(data, cfg, front)| DFrame::Missing { data, cfg, front }),
        2 => (framespec_strategy(6, 50, false), 0u8..=2, prop_oneof![Just(0u8), 0u8..=40]).prop_map(|(spec, which, k)| DFrame::Beyond { spec, which, k }),
    ]
}

fn case_strategy(tier: Tier) -> impl Strategy<Value = Case> {
    (dict_strategy(), prop::option::weighted(0.5, dict_strategy()), prop::collection::vec(dframe_strategy(tier), 1..=10)).prop_map(|(dict_a, dict_b, frames)| {
        let superseded = dict_a.seed % 10 < 3;
        Case { dict_a, dict_b, frames, superseded }
    })
}

struct Dicts {
    built: Vec<BuiltDict>,
    model: Vec<Dict>,
}

fn pick<'a>(d: &'a Dicts, which: u8) -> Option<usize> {
    match which % 3 {
        0 => Some(0),
        1 if d.built.len() > 1 => Some(1),
        1 => Some(0),
        _ => None,
    }
}

/// decode `frame` on the shared decoder; `forced` = the frame carries no dictionary id
fn decode_on(dec: &mut FrameDecoder, frame: &[u8], driver: u8, force: Option<u32>, expect_len: usize) -> Result<Vec<u8>, String> {
    if force.is_some() || driver % 3 == 0 {
        let mut src = frame;
        dec.reset(&mut src).map_err(|e| format!("reset: {e}"))?;
        if let Some(id) = force {
            dec.force_dict(id).map_err(|e| format!("force_dict: {e}"))?;
        }
        dec.decode_blocks(&mut src, BlockDecodingStrategy::All).map_err(|e| format!("decode_blocks: {e}"))?;
        Ok(dec.collect().unwrap_or_default())
    } else if driver % 3 == 1 {
        let mut out = vec![0u8; expect_len];
        let n = dec.decode_all(frame, &mut out).map_err(|e| format!("decode_all: {e}"))?;
        out.truncate(n);
        Ok(out)
    } else {
        let mut sd = StreamingDecoder::new_with_decoder(frame, dec).map_err(|e| format!("streaming init: {e}"))?;
        let mut out = vec![];
        sd.read_to_end(&mut out).map_err(|e| format!("streaming read: {e}"))?;
        Ok(out)
    }
}

pub fn check(case: &Case, ctx: &mut CaseCtx) -> CaseResult {
    let mut specs = vec![&case.dict_a];
    if let Some(b) = &case.dict_b {
        specs.push(b);
    }
    let mut d = Dicts { built: vec![], model: vec![] };
    for s in specs {
        let b = match s.build() {
            Ok(b) => b,
            Err(_) => {
                ctx.feat("skipped:trainer_refused");
                return Ok(());
            }
        };
        let m = frame::parse_dict(&b.bytes).map_err(|e| Failure::new("machinery", format!("model cannot parse a reference dictionary: {e}")))?;
        if m.id != b.id {
            return Err(Failure::new("machinery", "model dictionary id differs"));
        }
        d.model.push(m);
        d.built.push(b);
    }
    if d.built.len() == 2 && d.built[0].id == d.built[1].id {
        d.built.pop();
        d.model.pop();
    }
    // decoder with all dictionaries registered
    let mut dec = FrameDecoder::new();
    if case.superseded {
        // the older edition: trained on other samples, stamped with A's id
        let mut old_spec = case.dict_a.clone();
        old_spec.seed ^= 0x5151;
        old_spec.rep_patch = Some([2, 7, 11]);
        if let Ok(mut old) = old_spec.build() {
            if old.bytes.len() >= 8 && old.bytes != d.built[0].bytes {
                old.bytes[4..8].copy_from_slice(&d.built[0].id.to_le_bytes());
                if let Ok(parsed) = Dictionary::decode_dict(&old.bytes) {
                    let _ = dec.add_dict(parsed);
                    ctx.feat("registry:older_edition_under_the_same_id_registered_first");
                }
            }
        }
    }
    for (bi, b) in d.built.iter().enumerate() {
        let parsed = match Dictionary::decode_dict(&b.bytes) {
            Ok(p) => p,
            Err(e) => fail!("reference_dictionary_rejected", "decode_dict rejects a dictionary from the reference trainer ({} bytes, id {}): {e}", b.bytes.len(), b.id),
        };
        ensure!(parsed.id == b.id, "dictionary_id_wrong", "decode_dict reports id {} for a dictionary with id {}", parsed.id, b.id);
        if let Err(e) = dec.add_dict(parsed) {
            if case.superseded && bi == 0 {
                // a registry may decline a second dictionary under an id it holds - openly; what it
                // may not do is report success and keep decoding with the old one
                ctx.feat("registry:replacement_declined_with_an_error");
                return Ok(());
            }
            return Err(Failure::new("add_dict_failed", format!("{e}")));
        }
    }
    let mut nontrivial = 0;
    let mut hash_parts: Vec<Vec<u8>> = vec![];
    let mut after_dict_frame = false;
    for (fi, f) in case.frames.iter().enumerate() {
        match f {
            DFrame::Ref { data, plain, cfg, which, driver } => {
                let w = pick(&d, *which);
                let (content, dict_bytes): (Vec<u8>, Option<&[u8]>) = match w {
                    Some(i) => (data.render(&d.built[i], if i == 0 { &case.dict_a } else { case.dict_b.as_ref().unwrap() }), Some(&d.built[i].bytes)),
                    None => (plain.render(), None),
                };
                let frame_bytes = match refz::compress(&content, cfg, dict_bytes) {
                    Ok(f) => f,
                    Err(_) => continue,
                };
                match refz::decompress(&frame_bytes, dict_bytes, content.len() + 1) {
                    Ok(x) if x == content => {}
                    _ => return Err(Failure::new("machinery", "reference does not round-trip its own dictionary frame")),
                }
                let rh = refz::frame_header(&frame_bytes).map_err(|e| Failure::new("machinery", e))?;
                let force = match w {
                    Some(i) if rh.dict_id == 0 => Some(d.built[i].id),
                    _ => None,
                };
                if let Some(i) = w {
                    ensure!(rh.dict_id == 0 || rh.dict_id == d.built[i].id, "machinery", "frame names dictionary {} but was compressed with {}", rh.dict_id, d.built[i].id);
                }
                let out = decode_on(&mut dec, &frame_bytes, *driver, force, content.len()).map_err(|e| {
                    Failure::new("valid_dictionary_frame_rejected", format!("frame #{fi} ({} bytes, dictionary {:?}, forced {:?}, window {}): {e}; frame {}", frame_bytes.len(), w, force, rh.window_size, hexhead(&frame_bytes)))
                })?;
                ensure!(out == content, "wrong_content", "frame #{fi} (dictionary {:?}, forced {:?}, driver {driver}): {}; frame {}", w, force, first_diff(&out, &content), hexhead(&frame_bytes));
                if let Some(i) = w {
                    if let Ok(info) = frame::walk(&frame_bytes, &WalkOpts { dict: Some(&d.model[i]), ..Default::default() }) {
                        ctx.feat_if(info.uses_dict_content, "dict:match_into_content");
                        ctx.feat_if(info.first_block_uses_dict_tables, "dict:entropy_tables_in_first_block");
                        ctx.feat_if(info.content.len() as u64 > info.header.window_size, "dict:content_exceeds_window");
                        if info.uses_dict_content || info.first_block_uses_dict_tables {
                            nontrivial += 1;
                        }
                    }
                    ctx.feat(if force.is_some() { "dict:forced_no_id" } else { "dict:by_id" });
                    after_dict_frame = true;
                } else {
                    ctx.feat_if(after_dict_frame, "plain_frame_after_dictionary_frame");
                }
                hash_parts.push(frame_bytes);
            }
            DFrame::Synth { spec, which, driver } => {
                let w = pick(&d, *which);
                let md = w.map(|i| &d.model[i]);
                let out = synth(spec, md, false);
                let dict_bytes = w.map(|i| d.built[i].bytes.as_slice());
                match refz::decompress(&out.bytes, dict_bytes, out.content.len() + 1) {
                    Ok(x) if x == out.content => {
                        SYNTH_OK.fetch_add(1, Ordering::Relaxed);
                    }
                    _ => {
                        SYNTH_REJ.fetch_add(1, Ordering::Relaxed);
                        ctx.feat("skipped:synth_rejected_by_reference");
                        continue;
                    }
                }
                let rh = refz::frame_header(&out.bytes).map_err(|e| Failure::new("machinery", e))?;
                let force = match w {
                    Some(i) if rh.dict_id == 0 => Some(d.built[i].id),
                    _ => None,
                };
                let got = decode_on(&mut dec, &out.bytes, *driver, force, out.content.len()).map_err(|e| {
                    Failure::new("valid_dictionary_frame_rejected", format!("synthesized frame #{fi} (dictionary {:?}, forced {:?}): {e}; frame {}", w, force, hexhead(&out.bytes)))
                })?;
                ensure!(got == out.content, "wrong_content", "synthesized frame #{fi} (dictionary {:?}, forced {:?}): {}; frame {}", w, force, first_diff(&got, &out.content), hexhead(&out.bytes));
                if let Some(i) = w {
                    if let Ok(info) = frame::walk(&out.bytes, &WalkOpts { dict: Some(&d.model[i]), ..Default::default() }) {
                        ctx.feat_if(info.uses_dict_content, "dict:synth_match_into_content");
                        ctx.feat_if(info.first_block_uses_dict_tables, "dict:synth_entropy_tables_in_first_block");
                        if info.uses_dict_content || info.first_block_uses_dict_tables {
                            nontrivial += 1;
                        }
                    }
                    after_dict_frame = true;
                } else {
                    ctx.feat_if(after_dict_frame, "plain_frame_after_dictionary_frame");
                }
                hash_parts.push(out.bytes);
            }
            DFrame::Missing { data, cfg, front } => {
                let content = data.render(&d.built[0], &case.dict_a);
                let mut cfg = cfg.clone();
                cfg.dict_id_flag = true;
                let frame_bytes = match refz::compress(&content, &cfg, Some(&d.built[0].bytes)) {
                    Ok(f) => f,
                    Err(_) => continue,
                };
                let id = d.built[0].id;
                // a decoder that knows only the other dictionary (or none)
                let mut other = FrameDecoder::new();
                if d.built.len() > 1 {
                    other.add_dict(Dictionary::decode_dict(&d.built[1].bytes).map_err(|e| Failure::new("reference_dictionary_rejected", format!("{e}")))?).unwrap();
                }
                let verdict: Result<(), FrameDecoderError> = match front % 4 {
                    0 => other.reset(&frame_bytes[..]),
                    1 => other.init(&frame_bytes[..]),
                    2 => {
                        let mut out = vec![0u8; content.len()];
                        other.decode_all(&frame_bytes, &mut out).map(|_| ())
                    }
                    _ => StreamingDecoder::new_with_decoder(&frame_bytes[..], &mut other).map(|_| ()),
                };
                match verdict {
                    Err(FrameDecoderError::DictNotProvided { dict_id }) => ensure!(dict_id == id, "missing_dictionary_wrong_id", "error names dictionary {dict_id}, the frame names {id}"),
                    Err(e) => fail!("missing_dictionary_wrong_error", "frame naming dictionary {id} on a decoder without it: {e}"),
                    Ok(()) => fail!("missing_dictionary_accepted", "frame naming dictionary {id} was accepted by a decoder that does not have it (front {front})"),
                }
                let leaked = other.collect().map(|v| v.len()).unwrap_or(0);
                ensure!(leaked == 0, "missing_dictionary_decoded_something", "{leaked} bytes were decoded although the dictionary is missing");
                ctx.feat("dict:missing_refused");
            }
            DFrame::Beyond { spec, which, k } => {
                let w = pick(&d, *which);
                let md = w.map(|i| &d.model[i]);
                let mut spec = spec.clone();
                // first sequence of the first compressed block reaches beyond everything
                let mut planted = false;
                for b in spec.blocks.iter_mut() {
                    if let BlockSpec::Comp(c) = b {
                        if let Some(s) = c.seqs.first_mut() {
                            s.off = OffSpec::Beyond(*k);
                            planted = true;
                        }
                        break;
                    }
                }
                if !planted {
                    continue;
                }
                let out = synth(&spec, md, false);
                if !out.invalid {
                    continue;
                }
                let dict_bytes = w.map(|i| d.built[i].bytes.as_slice());
                // Arbiter for this clause is the specification (model walker), not libzstd: the
                // reference decoder keeps the *whole* dictionary buffer (including its entropy
                // header) addressable, so it accepts offsets up to that many bytes too far.
                let _ = dict_bytes;
                match frame::walk(&out.bytes, &WalkOpts { dict: md, ..Default::default() }) {
                    Err(e) if e.contains("beyond start of data") => {}
                    _ => {
                        ctx.feat("skipped:beyond_probe_not_as_intended");
                        continue;
                    }
                }
                let rh = refz::frame_header(&out.bytes).map_err(|e| Failure::new("machinery", e))?;
                let force = match w {
                    Some(i) if rh.dict_id == 0 => Some(d.built[i].id),
                    _ => None,
                };
                let r = decode_on(&mut dec, &out.bytes, 0, force, out.content.len());
                ensure!(r.is_err(), "offset_beyond_dictionary_accepted", "a match reaching {} byte(s) beyond dictionary {:?} + output was accepted; frame {}", *k as u32 + 1, w, hexhead(&out.bytes));
                ctx.feat(if w.is_some() { "dict:beyond_dictionary_refused" } else { "plain:before_frame_start_refused" });
                ctx.feat_if(w.is_none() && after_dict_frame, "plain:before_start_refused_after_dictionary_frame");
            }
        }
    }
    ctx.nontrivial = nontrivial > 0;
    ctx.weight = case.frames.len() as u64;
    let parts: Vec<&[u8]> = hash_parts.iter().map(|v| v.as_slice()).collect();
    ctx.set_hash_bytes(&parts);
    ctx.mix_hash(d.built[0].id as u64);
    if ctx.nontrivial && case.frames.len() <= 2 {
        ctx.sample = Some(json!({"dictionary": {"bytes": d.built[0].bytes.len(), "id": d.built[0].id}, "frames": case.frames.len(), "first_frame_hex": hash_parts.first().map(|f| hexhead(f))}));
    }
    Ok(())
}

pub fn run(eng: &Engine) {
    eng.set_rule("cases = (one or two dictionaries from ZDICT_trainFromBuffer / ZDICT_finalizeDictionary, a history of 1..10 frames on ONE decoder): reference-compressed frames with dictionary A / B / none (inputs: training samples, splices of dictionary bytes at generated alignments, text longer than the window, unrelated data; window logs 10.., with and without dictionary id -> force_dict), synthesized frames using the dictionary's entropy tables / repeat offsets / content in the first block, frames naming a dictionary the decoder lacks, and synthesized frames with a match one or more bytes beyond dictionary + output; non-trivial = at least one frame with a match into dictionary content or dictionary entropy state in its first block (model walker); distinct by hash of the frames; evaluations count frames");
    eng.assume("references into the dictionary after the output passed the window are not asserted to be rejected");
    let tier = eng.tier;
    let n = eng.tier.pick(6_000, 60_000);
    eng.run_stage("dictionary_histories", n, || case_strategy(tier), check);
    eng.selftest_count("synth_dict_frames_accepted_by_reference", SYNTH_OK.load(Ordering::Relaxed));
    eng.selftest_count("synth_dict_frames_rejected_by_reference", SYNTH_REJ.load(Ordering::Relaxed));
}

pub fn replay(eng: &Engine, stage: &str, case: &Value) -> CaseResult {
    match stage {
        "dictionary_histories" => eng.replay_value(stage, case, check),
        _ => Err(Failure::new("machinery", format!("unknown stage {stage}"))),
    }
}
