//! C04 The unsafe output window behaves as a byte queue and never leaves its allocation.
//! Generated operation lists over the hooked RingBuffer / DecodeBuffer against a VecDeque model,
//! under a canary + poison allocator (quick); the same lists run under ASan and Miri (thorough).

use crate::alloc;
use crate::engine::{CaseCtx, CaseResult, Engine, Failure, Tier};
use ringops::*;
use proptest::prelude::*;
use serde::{Deserialize, Serialize};
use serde_json::{json, Value};

fn sz_strategy(big: u32) -> impl Strategy<Value = Sz> {
    prop_oneof![
        4 => prop::sample::select(vec![0u32, 1, 2, 15, 16, 17, 31, 32, 33, 47, 48, 49, 64]).prop_map(Sz::N),
        3 => (0u32..=40).prop_map(Sz::N),
        2 => (0u32..=big).prop_map(Sz::N),
        2 => (-2i8..=2).prop_map(Sz::Free),
        2 => (-17i8..=2).prop_map(Sz::Len),
        3 => (-17i8..=17).prop_map(Sz::ToWrap),
        2 => (-17i8..=17).prop_map(Sz::HeadToWrap),
    ]
}

fn op_strategy(big: u32) -> impl Strategy<Value = Op> {
    prop_oneof![
        1 => sz_strategy(big).prop_map(Op::Reserve),
        4 => (sz_strategy(big), any::<u8>()).prop_map(|(s, b)| Op::Extend(s, b)),
        1 => (any::<u8>(), sz_strategy(big)).prop_map(|(b, s)| Op::Fill(b, s)),
        1 => (sz_strategy(big), 1u16..=64, prop::option::weighted(0.2, 0u16..=64)).prop_map(|(s, c, e)| Op::FromReader(s, c, e)),
        8 => (any::<u16>(), sz_strategy(big), any::<bool>()).prop_map(|(st, s, u)| Op::Within(st, s, u)),
        5 => sz_strategy(big).prop_map(Op::DropFirst),
        1 => Just(Op::Clear),
        1 => any::<u8>().prop_map(Op::PushBack),
    ]
}

pub fn ring_case(ops: &Vec<Op>, ctx: &mut CaseCtx, cap_limit: usize) -> CaseResult {
    let mut stats = RbStats::default();
    let mut stats_in = stats;
    let (res, damaged) = alloc::guarded_scope(|| exec_ring(ops, cap_limit, &mut stats_in));
    // (stats are recomputed outside the guarded scope only when needed; copy them out)
    stats = stats_in;
    if damaged > 0 {
        return Err(Failure::new(
            "ring_out_of_bounds_write",
            format!("{damaged} heap block(s) had their canaries overwritten while executing {ops:?}"),
        ));
    }
    if let Some((i, code)) = res {
        return Err(Failure::new(code_name(code), format!("op #{i} of {ops:?}")));
    }
    // electric fence: the same list twice more, the buffer's allocation ending / starting exactly
    // at an inaccessible page. An access beyond the allocation (also a read whose result is
    // thrown away) ends the process; the launcher localises the case and writes the replay file.
    for mode in [1u8, 2] {
        let mut st = RbStats::default();
        let (res, damaged, fenced) = alloc::fenced_scope(mode, || exec_ring(ops, cap_limit, &mut st));
        if damaged > 0 {
            return Err(Failure::new(
                "ring_out_of_bounds_write",
                format!("fence mode {mode}: {damaged} heap block(s) were written outside their bounds while executing {ops:?}"),
            ));
        }
        if let Some((i, code)) = res {
            return Err(Failure::new(code_name(code), format!("fence mode {mode}: op #{i} of {ops:?}")));
        }
        ctx.feat_if(fenced > 0, if mode == 1 { "fence:end_of_allocation_at_guard_page" } else { "fence:start_of_allocation_at_guard_page" });
    }
    ctx.feat_if(stats.case1, "copy:case1_contiguous_src");
    ctx.feat_if(stats.case2, "copy:case2_wrapped_src_after_wrap");
    ctx.feat_if(stats.case3, "copy:case3_src_before_wrap");
    ctx.feat_if(stats.two_step_dst, "copy:two_step_destination");
    ctx.feat_if(stats.two_step_src, "copy:two_step_source");
    ctx.feat_if(stats.single_chunk, "copy:single_16B_chunk");
    ctx.feat_if(stats.multi_chunk, "copy:multi_chunk_or_memcpy");
    ctx.feat_if(stats.exact_fill, "extend:exact_fill");
    ctx.feat_if(stats.grew_wrapped, "reserve:grow_while_wrapped");
    ctx.feat_if(stats.reader_eof, "reader:early_eof");
    ctx.nontrivial = stats.wrapped_within;
    let text = serde_json::to_vec(ops).unwrap();
    ctx.set_hash_bytes(&[&text]);
    if ctx.nontrivial && ops.len() <= 8 {
        ctx.sample = Some(serde_json::to_value(ops).unwrap());
    }
    Ok(())
}

// ---------------------------------------------------------------------------------------------
// DecodeBuffer family

fn dop_strategy() -> impl Strategy<Value = DOp> {
    let n = || prop_oneof![3 => 0u16..=40, 2 => 0u16..=600, 1 => 0u16..=5000];
    let sink = || (prop_oneof![Just(0u16), 1u16..=17, 1u16..=600], prop::option::weighted(0.25, 0u16..=700), prop::option::weighted(0.25, 0u16..=700));
    prop_oneof![
        4 => (n(), any::<u8>()).prop_map(|(l, s)| DOp::Push(l, s)),
        8 => (any::<u16>(), n(), prop::option::weighted(0.5, 1u8..=20), prop::bool::weighted(0.05)).prop_map(|(off, len, small_off, bad)| DOp::Repeat { off, len, small_off, bad }),
        1 => (any::<u8>(), n()).prop_map(|(b, l)| DOp::Fill(b, l)),
        1 => (n(), 1u16..=64).prop_map(|(l, c)| DOp::FromReader(l, c)),
        3 => n().prop_map(DOp::Read),
        1 => Just(DOp::DrainToWindow),
        3 => sink().prop_map(|(per_call, stop_after, fail_after)| DOp::DrainToWindowWriter { per_call, stop_after, fail_after }),
        1 => n().prop_map(DOp::ReadAll),
        1 => Just(DOp::DrainAll),
        1 => sink().prop_map(|(per_call, stop_after, fail_after)| DOp::DrainAllWriter { per_call, stop_after, fail_after }),
        1 => (0u16..=3000).prop_map(DOp::Reset),
    ]
}

pub fn decodebuf_case(case: &DCase, ctx: &mut CaseCtx) -> CaseResult {
    let mut msg = String::new();
    let mut feats = vec![];
    if let Some(kind) = exec_decodebuf(case, &mut msg, &mut feats) {
        return Err(Failure::new(kind, format!("{msg}; case {case:?}")));
    }
    // electric fence (see ring_case): every byte buffer of the run ends / starts at a guard page
    for mode in [1u8, 2] {
        let mut m2 = String::new();
        let mut f2 = vec![];
        let (res, damaged, fenced) = alloc::fenced_scope(mode, || exec_decodebuf(case, &mut m2, &mut f2));
        if damaged > 0 {
            return Err(Failure::new("ring_out_of_bounds_write", format!("fence mode {mode}: {damaged} heap block(s) were written outside their bounds; case {case:?}")));
        }
        if let Some(kind) = res {
            return Err(Failure::new(kind, format!("fence mode {mode}: {m2}; case {case:?}")));
        }
        ctx.feat_if(fenced > 0, if mode == 1 { "fence:end_of_allocation_at_guard_page" } else { "fence:start_of_allocation_at_guard_page" });
    }
    for f in &feats {
        ctx.feat(f);
    }
    ctx.nontrivial = feats.contains(&"dbuf:wrapped") && feats.iter().any(|f| f.starts_with("dbuf:repeat") || *f == "dbuf:overlapping_repeat");
    let text = serde_json::to_vec(case).unwrap();
    ctx.set_hash_bytes(&[&text]);
    Ok(())
}

fn ops_strategy(max_ops: usize, big: u32) -> impl Strategy<Value = Vec<Op>> {
    prop::collection::vec(op_strategy(big), 1..=max_ops)
}

fn dcase_strategy(max_ops: usize) -> impl Strategy<Value = DCase> {
    (
        prop_oneof![Just(0u16), 1u16..=64, 1u16..=2048],
        prop_oneof![Just(0u16), 1u16..=64, 1u16..=2048],
        prop::collection::vec(dop_strategy(), 1..=max_ops),
    )
        .prop_map(|(window, dict_len, ops)| DCase { window, dict_len, ops })
}

fn cap_limit(eng: &Engine) -> usize {
    match eng.tier {
        Tier::Quick => 4096,
        Tier::Thorough => 1 << 16,
    }
}

/// Write the first `n` ring op lists of the stream (plus regress files) for the Miri / ASan replayers.
fn export_corpus(eng: &Engine, dir: &std::path::Path, n: usize) {
    use proptest::strategy::ValueTree;
    use proptest::test_runner::{Config, RngAlgorithm, RngSeed, TestRunner};
    let _ = std::fs::create_dir_all(dir);
    let mut runner = TestRunner::new(Config {
        rng_algorithm: RngAlgorithm::ChaCha,
        rng_seed: RngSeed::Fixed(eng.seed ^ 0xC04),
        failure_persistence: None,
        ..Config::default()
    });
    let strat = ops_strategy(40, 300);
    for i in 0..n {
        let ops = strat.new_tree(&mut runner).unwrap().current();
        let _ = std::fs::write(dir.join(format!("ops-{i:04}.json")), serde_json::to_vec(&ops).unwrap());
    }
    let dstrat = dcase_strategy(30);
    for i in 0..n / 2 {
        let c = dstrat.new_tree(&mut runner).unwrap().current();
        let _ = std::fs::write(dir.join(format!("dbuf-{i:04}.json")), serde_json::to_vec(&c).unwrap());
    }
}

pub fn run(eng: &Engine) {
    eng.set_rule("operation lists over RingBuffer (Reserve/Extend/Fill/FromReader/Within checked+unchecked/DropFirst/Clear/PushBack with operands resolved against the live cap/head/tail) and over DecodeBuffer (push/repeat incl. dictionary/overlap/fill/reader/all drain paths with partial and failing sinks/reset); non-trivial = an extend_from_within executed while the buffer is wrapped or that wraps it (ring), or a repeat on a wrapped buffer (decode buffer); distinct by hash of the op list");
    eng.assume("x86-64 only: CopyType = u128 (sse2); the usize fallback path is not compiled here");
    eng.assume("accesses beyond the allocation are trapped by the harness allocator's fence mode (allocation flush against an inaccessible page, both ends in turn) also when the bytes read are discarded; reads of bytes INSIDE the allocation that were never written are visible to the release harness only when they flow into live data (poison pattern vs. queue model) - the thorough tier adds Miri for those, and AddressSanitizer (cargo-fuzz targets ringbuf_ops / decodebuf_ops) as a second engine");
    let limit = cap_limit(eng);
    let big = if eng.tier == Tier::Quick { 1500 } else { 20_000 };
    let n_ring = eng.tier.pick(300_000, 600_000);
    let n_dbuf = eng.tier.pick(150_000, 400_000);
    eng.run_stage("ring_ops", n_ring, || ops_strategy(60, big), move |ops: &Vec<Op>, ctx| ring_case(ops, ctx, limit));
    eng.run_stage("decodebuf_ops", n_dbuf, || dcase_strategy(50), decodebuf_case);
    if !eng.has_violation() {
        let dir = std::path::Path::new(crate::engine::VERIF_ROOT).join("target/c04_corpus");
        let _ = std::fs::remove_dir_all(&dir);
        export_corpus(eng, &dir, if eng.tier == Tier::Thorough { 400 } else { 40 });
        eng.set_extra("sanitizer_corpus", json!({"dir": dir, "note": "op lists exported for the Miri / ASan replayers (run by scripts/extra-C04.sh)"}));
    }
}

pub fn replay(eng: &Engine, stage: &str, case: &Value) -> CaseResult {
    match stage {
        "ring_ops" => eng.replay_value(stage, case, |ops: &Vec<Op>, ctx| ring_case(ops, ctx, 1 << 20)),
        "decodebuf_ops" => eng.replay_value(stage, case, decodebuf_case),
        _ => Err(Failure::new("machinery", format!("unknown stage {stage}"))),
    }
}
