//! C08 Content checksums are computed over exactly the delivered bytes.

use crate::engine::{CaseCtx, CaseResult, Engine, Failure};
use crate::model::xxh64;
use crate::props::c01::hexhead;
use crate::props::{c02, c06};
use crate::{ensure, refz};
use serde_json::{json, Value};

fn check_drain(case: &c06::Case, ctx: &mut CaseCtx) -> CaseResult {
    c06::check_with(case, ctx, true)
}

fn check_compressor(case: &c02::Case, ctx: &mut CaseCtx) -> CaseResult {
    let results = c02::compress_history(case);
    let mut parts: Vec<&[u8]> = vec![];
    for (i, (input, f)) in results.iter().enumerate() {
        ensure!(f.len() >= 13 && f[4] & 4 != 0, "checksum_flag_missing", "frame #{i}: hash build but the checksum flag is not set; frame {}", hexhead(f));
        let stored = u32::from_le_bytes(f[f.len() - 4..].try_into().unwrap());
        let want = xxh64::checksum32(input);
        ensure!(stored == want, "compressor_checksum_wrong", "frame #{i} of {} from a reused compressor ends with checksum {stored:#x}, XXH64-32 of its input is {want:#x}", results.len());
        // the reference decoder verifies the checksum against the decoded content
        match refz::decompress(f, None, input.len() + 1) {
            Ok(d) => ensure!(&d == input, "reference_decodes_differently", "frame #{i}: reference decodes different data"),
            Err(e) => return Err(Failure::new("reference_rejects_frame", format!("frame #{i}: {e}"))),
        }
        ctx.feat_if(i >= 1, "compressor:frame_index>=1");
        ctx.feat_if(i >= 2, "compressor:frame_index>=2");
        ctx.feat_if(input.is_empty(), "compressor:empty_input");
        parts.push(f);
    }
    ctx.weight = results.len() as u64;
    ctx.nontrivial = results.len() >= 2;
    ctx.set_hash_bytes(&parts);
    if ctx.nontrivial && results.iter().all(|r| r.1.len() < 60) {
        ctx.sample = Some(json!({"frames": results.iter().map(|r| hexhead(&r.1)).collect::<Vec<_>>()}));
    }
    Ok(())
}

pub fn run(eng: &Engine) {
    eng.set_rule("(1) the C06 driver programs (every drain path: collect, read, collect_to_writer with partial / failing sinks, decode_from_to, streaming reads; wrapped and unwrapped ring) on frames with and without a stored checksum: calculated checksum == low 32 bits of the harness's own XXH64 over exactly the delivered bytes == stored checksum; non-trivial = bytes were removed while the ring was wrapped through >= 2 different drain paths, or a mid-frame drain on content exceeding the window; (2) FrameCompressor reuse histories (1..6 frames, both levels, empty inputs, exact block multiples): last 4 bytes == XXH64-32 of that frame's input and the reference decoder (which verifies) accepts; non-trivial = >= 2 frames from one compressor; distinct by case hash");
    eng.assume("XXH64 written in the harness from the published algorithm (twox-hash is not used), validated against fixed vectors and against every checksum libzstd verifies during the run");
    let tier = eng.tier;
    let n1 = eng.tier.pick(15_000, 300_000);
    let n2 = eng.tier.pick(8_000, 150_000);
    eng.run_stage("drain_programs", n1, || c06::case_strategy(tier), check_drain);
    eng.run_stage("compressor_histories", n2, || c02::case_strategy(tier), check_compressor);
}

pub fn replay(eng: &Engine, stage: &str, case: &Value) -> CaseResult {
    match stage {
        "drain_programs" => eng.replay_value(stage, case, check_drain),
        "compressor_histories" => eng.replay_value(stage, case, check_compressor),
        _ => Err(Failure::new("machinery", format!("unknown stage {stage}"))),
    }
}
