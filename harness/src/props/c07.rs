//! C07 A reused decoder behaves exactly like a fresh one.

use crate::engine::{CaseCtx, CaseResult, Engine, Failure, Tier};
use crate::gen::data::DataSpec;
use crate::gen::dicts::{dict_strategy, related_strategy, BuiltDict, DictSpec, RelatedData};
use crate::gen::frames::{frame_case_custom, FrameCase};
use crate::gen::framespec::{comp_strategy, framespec_strategy};
use crate::gen::refcfg::refcfg_strategy;
use crate::model::bits::FwdWriter;
use crate::model::frame::{self, WalkOpts};
use crate::model::synth::{synth, BlockSpec, CompSpec, FrameSpec, OffSpec};
use crate::props::c01::{first_diff, hexhead};
use crate::refz::{self, RefCfg};
use crate::{ensure, fail};
use proptest::prelude::*;
use ruzstd::decoding::{BlockDecodingStrategy, Dictionary, FrameDecoder};
use serde::{Deserialize, Serialize};
use serde_json::{json, Value};

#[derive(Clone, Debug, Serialize, Deserialize)]
pub enum StepFrame {
    Valid(FrameCase),
    Dict { data: RelatedData, cfg: RefCfg, which: u8 },
    /// keep this fraction (x/65536) of the frame's bytes
    Truncated { frame: FrameCase, keep: u16 },
    /// xor bytes at fractional positions
    Corrupt { frame: FrameCase, flips: Vec<(u16, u8)> },
    /// a compressed block is cut short INSIDE (its size field says so): it ends right after a
    /// structural point - the literals section, the sequence count, the modes byte, or 1..3 bytes
    /// into the table descriptions - and the frame ends there. The failure happens in the middle of
    /// building per-frame state (tables half replaced), not at a read from the source
    CutBlock { frame: FrameCase, block: u8, point: u8 },
}

#[derive(Clone, Copy, Debug, Serialize, Deserialize)]
pub enum How {
    Complete { drain: bool },
    Abandon { blocks: u8, drain: bool },
}

#[derive(Clone, Debug, Serialize, Deserialize)]
pub struct Step {
    pub frame: StepFrame,
    pub how: How,
}

#[derive(Clone, Debug, Serialize, Deserialize)]
pub enum Probe {
    Valid(FrameCase),
    /// valid synthesized frame whose first block is `first` (repeat offsets right at the start)
    Crafted { first: CompSpec, rest: FrameSpec },
    /// `Crafted` made INVALID on a fresh decoder: 0/1/2 = LL/OF/ML mode -> Repeat, 3 = literals -> treeless
    Patched { first: CompSpec, rest: FrameSpec, patch: u8 },
    /// INVALID: a match reaches k+1 bytes before the start of the frame
    BeforeStart { first: CompSpec, rest: FrameSpec, k: u8 },
    Dict { data: RelatedData, cfg: RefCfg, which: u8 },
    /// INVALID for a decoder that keeps no more than the window: `fill` raw blocks of one window
    /// each (window 2^(10+exp) * (1 + mant/8)), then `first` whose first match reaches k+1 bytes
    /// past the window into the frame's own older output. Decoded block by block with a drain in
    /// between, a fresh decoder refuses it; a decoder still using a larger window from an earlier
    /// frame does not.
    PastWindow { exp: u8, mant: u8, fill: u8, seed: u32, first: CompSpec, k: u8 },
}

#[derive(Clone, Debug, Serialize, Deserialize)]
pub struct Case {
    pub dicts: Vec<DictSpec>,
    pub history: Vec<Step>,
    pub probe: Probe,
    /// how the probe is decoded (on both decoders alike): 0 all blocks then collect; 1 block by
    /// block with collect() in between; 2 block by block with small reads in between
    #[serde(default)]
    pub drive: u8,
    /// a window limit configured AFTER the history, right before the probe - on the new decoder
    /// before its first frame, on the reused one between frames: (kind, value) with kind 0 = probe
    /// window - 1 - value, 1 = exactly the probe window, 2 = half of it, 3 = value KiB
    #[serde(default)]
    pub limit: Option<(u8, u16)>,
}

fn crafted_first() -> impl Strategy<Value = CompSpec> {
    (comp_strategy(40, false), (30u32..=2500), any::<u32>(), any::<u16>(), prop::collection::vec(1u8..=3, 1..4)).prop_map(|(mut c, len, seed, a, reps)| {
        // Huffman literals with a fresh table, predefined modes, at least one sequence, repeat offsets first
        c.literals = DataSpec { kind: 2, len, seed, a: a % 8, b: 9 }.render();
        c.lit_mode = 2;
        c.modes = [0, 0, 0];
        if c.seqs.is_empty() {
            c.seqs.push(crate::model::synth::SeqSpec { ll: 9, ml: 5, off: OffSpec::Rep(1) });
        }
        for (i, r) in reps.iter().enumerate() {
            if i < c.seqs.len() {
                c.seqs[i].off = OffSpec::Rep(*r);
                if i == 0 {
                    c.seqs[0].ll = c.seqs[0].ll.max(9); // enough history for the initial offsets 1, 4, 8
                }
            }
        }
        c
    })
}

fn step_strategy(max_len: u32) -> impl Strategy<Value = Step> {
    let cfg = || refcfg_strategy(17);
    let frame = prop_oneof![
        4 => frame_case_custom(max_len, 17, 8, 200, false).prop_map(StepFrame::Valid),
        2 => (related_strategy(max_len), cfg(), 0u8..=2).prop_map(|(data, cfg, which)| StepFrame::Dict { data, cfg, which }),
        2 => (frame_case_custom(max_len, 17, 8, 200, false), any::<u16>()).prop_map(|(frame, keep)| StepFrame::Truncated { frame, keep }),
        3 => (frame_case_custom(max_len, 17, 8, 200, false), prop::collection::vec((any::<u16>(), 1u8..=255), 1..4)).prop_map(|(frame, flips)| StepFrame::Corrupt { frame, flips }),
        3 => (frame_case_custom(max_len, 17, 8, 200, false), 0u8..=5, 0u8..=6).prop_map(|(frame, block, point)| StepFrame::CutBlock { frame, block, point }),
    ];
    let how = prop_oneof![
        2 => any::<bool>().prop_map(|drain| How::Complete { drain }),
        3 => (0u8..=3, any::<bool>()).prop_map(|(blocks, drain)| How::Abandon { blocks, drain }),
    ];
    (frame, how).prop_map(|(frame, how)| Step { frame, how })
}

fn probe_strategy(max_len: u32) -> impl Strategy<Value = Probe> {
    let rest = || framespec_strategy(6, 100, false);
    prop_oneof![
        2 => frame_case_custom(max_len, 17, 8, 200, false).prop_map(Probe::Valid),
        3 => (crafted_first(), rest()).prop_map(|(first, rest)| Probe::Crafted { first, rest }),
        6 => (crafted_first(), rest(), 0u8..=3).prop_map(|(first, rest, patch)| Probe::Patched { first, rest, patch }),
        2 => (crafted_first(), rest(), prop_oneof![Just(0u8), 0u8..=60]).prop_map(|(first, rest, k)| Probe::BeforeStart { first, rest, k }),
        2 => (related_strategy(5000), refcfg_strategy(17), 0u8..=2).prop_map(|(data, cfg, which)| Probe::Dict { data, cfg, which }),
        3 => (0u8..=4, 0u8..=7, 1u8..=4, any::<u32>(), crafted_first(), prop_oneof![Just(0u8), 0u8..=200]).prop_map(|(exp, mant, fill, seed, first, k)| Probe::PastWindow { exp, mant, fill, seed, first, k }),
    ]
}

fn case_strategy(tier: Tier) -> impl Strategy<Value = Case> {
    let max_len = if tier == Tier::Quick { 40_000 } else { 400_000 };
    (prop::collection::vec(dict_strategy(), 0..=2), prop::collection::vec(step_strategy(max_len), 1..=6), probe_strategy(max_len), prop_oneof![2 => Just(0u8), 2 => Just(1u8), 1 => Just(2u8)], prop_oneof![3 => Just(None), 1 => (0u8..=3, prop_oneof![Just(0u16), any::<u16>()]).prop_map(Some)]).prop_map(|(dicts, history, probe, drive, limit)| Case { dicts, history, probe, drive, limit })
}

fn crafted_spec(first: &CompSpec, rest: &FrameSpec) -> FrameSpec {
    let mut s = rest.clone();
    s.blocks.insert(0, BlockSpec::Comp(first.clone()));
    s.dict_id_bytes = 0;
    s
}

/// The frame up to and including its k-th compressed block with sequences, that block cut short
/// after a structural point (see StepFrame::CutBlock).
fn cut_block(bytes: &[u8], k: u8, point: u8) -> Option<Vec<u8>> {
    let info = frame::walk(bytes, &WalkOpts::default()).ok()?;
    let mut p = info.header.header_len;
    let mut seen = 0u8;
    let candidates = info.blocks.iter().filter(|b| b.btype == 2 && b.seq.as_ref().map(|q| q.nseq > 0).unwrap_or(false)).count() as u8;
    if candidates == 0 {
        return None;
    }
    let want = k % candidates;
    for b in &info.blocks {
        let c = p + 3;
        if b.btype == 2 && b.seq.as_ref().map(|q| q.nseq > 0).unwrap_or(false) {
            if seen == want {
                let lit = b.lit.as_ref()?;
                let seq = b.seq.as_ref()?;
                let after_lit = lit.header_len + lit.comp;
                let after_count = after_lit + seq.count_bytes as usize;
                let cut = match point % 7 {
                    0 => after_lit,
                    1 => after_count,
                    2 => after_count + 1, // right after the modes byte: the first description is empty
                    3 => after_count + 2,
                    4 => after_count + 3,
                    5 => after_count + 4,
                    _ => (after_count + b.stored) / 2,
                }
                .min(b.stored.saturating_sub(1));
                let bh = u32::from_le_bytes([bytes[p], bytes[p + 1], bytes[p + 2], 0]);
                let nbh = (bh & 7) | ((cut as u32) << 3);
                let mut out = bytes[..p].to_vec();
                out.extend_from_slice(&nbh.to_le_bytes()[..3]);
                out.extend_from_slice(&bytes[c..c + cut]);
                return Some(out);
            }
            seen += 1;
        }
        p = c + b.stored;
    }
    None
}

/// Make a valid frame invalid-on-a-fresh-decoder by editing its first block.
fn patch_frame(bytes: &[u8], patch: u8) -> Option<Vec<u8>> {
    let info = frame::walk(bytes, &WalkOpts::default()).ok()?;
    let b0 = info.blocks.first()?;
    if b0.btype != 2 {
        return None;
    }
    let start = info.header.header_len + 3;
    let lit = b0.lit.as_ref()?;
    let seq = b0.seq.as_ref()?;
    let mut out = bytes.to_vec();
    if patch % 4 < 3 {
        if seq.nseq == 0 {
            return None;
        }
        let t = (patch % 4) as usize; // 0 LL, 1 OF, 2 ML
        if seq.modes[t] != 0 {
            return None;
        }
        let modes_at = start + lit.header_len + lit.comp + seq.count_bytes as usize;
        let shift = [6, 4, 2][t];
        out[modes_at] |= 3 << shift;
        Some(out)
    } else {
        if lit.ltype != 2 || lit.tree_desc_len == 0 {
            return None;
        }
        let bits = match lit.size_format {
            0 | 1 => 10,
            2 => 14,
            _ => 18,
        };
        let mut w = FwdWriter::new();
        w.write(3, 2);
        w.write(lit.size_format as u64, 2);
        w.write(lit.regen as u64, bits);
        w.write((lit.comp - lit.tree_desc_len) as u64, bits);
        let hdr = w.finish();
        if hdr.len() != lit.header_len {
            return None;
        }
        // block header: size shrinks by the removed tree description
        let bh = u32::from_le_bytes([bytes[start - 3], bytes[start - 2], bytes[start - 1], 0]);
        let size = (bh >> 3) as usize - lit.tree_desc_len;
        let nbh = (bh & 7) | ((size as u32) << 3);
        let mut o = bytes[..start - 3].to_vec();
        o.extend_from_slice(&nbh.to_le_bytes()[..3]);
        o.extend_from_slice(&hdr);
        o.extend_from_slice(&bytes[start + lit.header_len + lit.tree_desc_len..]);
        // the content checksum (if any) no longer matters: the frame is invalid anyway
        Some(o)
    }
}

#[derive(Debug, PartialEq)]
struct Outcome {
    result: String,
    bytes: Vec<u8>,
    calc: Option<u32>,
    stored: Option<u32>,
    consumed: u64,
    blocks: usize,
    content_size: u64,
    finished: bool,
}

fn run_probe(dec: &mut FrameDecoder, frame_bytes: &[u8], force: Option<u32>, drive: u8) -> Outcome {
    let mut src = frame_bytes;
    if let Err(e) = dec.reset(&mut src) {
        // accessor values after a failed reset are not compared (the previous frame legitimately stays)
        return Outcome { result: format!("reset: {e}"), bytes: vec![], calc: None, stored: None, consumed: 0, blocks: 0, content_size: 0, finished: false };
    }
    if let Some(id) = force {
        if let Err(e) = dec.force_dict(id) {
            return Outcome { result: format!("force_dict: {e}"), bytes: vec![], calc: None, stored: None, consumed: 0, blocks: 0, content_size: 0, finished: false };
        }
    }
    let mut bytes: Vec<u8> = vec![];
    let r = if drive % 3 == 0 {
        dec.decode_blocks(&mut src, BlockDecodingStrategy::All)
    } else {
        // block by block, taking what the decoder hands out in between (it keeps the window)
        let mut small = [0u8; 777];
        loop {
            match dec.decode_blocks(&mut src, BlockDecodingStrategy::UptoBlocks(1)) {
                Ok(fin) => {
                    if drive % 3 == 1 {
                        bytes.extend(dec.collect().unwrap_or_default());
                    } else {
                        use std::io::Read;
                        while let Ok(n) = dec.read(&mut small) {
                            if n == 0 {
                                break;
                            }
                            bytes.extend_from_slice(&small[..n]);
                        }
                    }
                    if fin {
                        break Ok(true);
                    }
                }
                Err(e) => break Err(e),
            }
        }
    };
    bytes.extend(dec.collect().unwrap_or_default());
    Outcome {
        result: match r {
            Ok(f) => format!("ok({f})"),
            Err(e) => format!("decode_blocks: {e}"),
        },
        bytes,
        calc: dec.get_calculated_checksum(),
        stored: dec.get_checksum_from_data(),
        consumed: dec.bytes_read_from_source(),
        blocks: dec.blocks_decoded(),
        content_size: dec.content_size(),
        finished: dec.is_finished(),
    }
}

fn new_decoder(dicts: &[BuiltDict]) -> Result<FrameDecoder, Failure> {
    let mut dec = FrameDecoder::new();
    for b in dicts {
        let d = Dictionary::decode_dict(&b.bytes).map_err(|e| Failure::new("reference_dictionary_rejected", format!("{e}")))?;
        dec.add_dict(d).map_err(|e| Failure::new("add_dict_failed", format!("{e}")))?;
    }
    Ok(dec)
}

fn dict_frame(dicts: &[BuiltDict], specs: &[DictSpec], data: &RelatedData, cfg: &RefCfg, which: u8) -> Option<(Vec<u8>, Vec<u8>, Option<u32>)> {
    if dicts.is_empty() {
        return None;
    }
    let i = (which as usize) % dicts.len();
    let content = data.render(&dicts[i], &specs[i]);
    let f = refz::compress(&content, cfg, Some(&dicts[i].bytes)).ok()?;
    let rh = refz::frame_header(&f).ok()?;
    let force = if rh.dict_id == 0 { Some(dicts[i].id) } else { None };
    Some((f, content, force))
}

pub fn check(case: &Case, ctx: &mut CaseCtx) -> CaseResult {
    let mut dicts: Vec<BuiltDict> = vec![];
    let mut dspecs: Vec<DictSpec> = vec![];
    for s in &case.dicts {
        if let Ok(b) = s.build() {
            if !dicts.iter().any(|d| d.id == b.id) {
                dicts.push(b);
                dspecs.push(s.clone());
            }
        }
    }
    let mut reused = new_decoder(&dicts)?;
    let mut had_abandoned_or_failed = false;
    let mut hash_parts: Vec<Vec<u8>> = vec![];
    // ---- history
    for step in &case.history {
        let (bytes, force): (Vec<u8>, Option<u32>) = match &step.frame {
            StepFrame::Valid(fc) => match fc.build() {
                Ok(b) => (b.frame, None),
                Err(_) => continue,
            },
            StepFrame::Dict { data, cfg, which } => match dict_frame(&dicts, &dspecs, data, cfg, *which) {
                Some((f, _, force)) => {
                    ctx.feat("history:dictionary_frame");
                    (f, force)
                }
                None => continue,
            },
            StepFrame::Truncated { frame, keep } => match frame.build() {
                Ok(b) => {
                    let n = ((b.frame.len() as u64 * *keep as u64) >> 16) as usize;
                    ctx.feat("history:truncated_frame");
                    (b.frame[..n].to_vec(), None)
                }
                Err(_) => continue,
            },
            StepFrame::CutBlock { frame, block, point } => match frame.build() {
                Ok(b) => match cut_block(&b.frame, *block, *point) {
                    Some(f) => {
                        ctx.feat("history:block_cut_short_inside");
                        (f, None)
                    }
                    None => continue,
                },
                Err(_) => continue,
            },
            StepFrame::Corrupt { frame, flips } => match frame.build() {
                Ok(b) => {
                    let mut f = b.frame;
                    for (p, x) in flips {
                        let i = 4 + (((f.len() - 4) as u64 * *p as u64) >> 16) as usize;
                        if i < f.len() {
                            f[i] ^= x;
                        }
                    }
                    ctx.feat("history:corrupted_frame");
                    (f, None)
                }
                Err(_) => continue,
            },
        };
        hash_parts.push(bytes.clone());
        let mut src = &bytes[..];
        if reused.reset(&mut src).is_err() {
            had_abandoned_or_failed = true;
            ctx.feat("history:failed_in_header");
            continue;
        }
        if let Some(id) = force {
            let _ = reused.force_dict(id);
        }
        match step.how {
            How::Complete { drain } => {
                match reused.decode_blocks(&mut src, BlockDecodingStrategy::All) {
                    Ok(_) => ctx.feat("history:completed"),
                    Err(_) => {
                        had_abandoned_or_failed = true;
                        ctx.feat("history:failed_in_blocks");
                    }
                }
                if drain {
                    let _ = reused.collect();
                }
            }
            How::Abandon { blocks, drain } => {
                match reused.decode_blocks(&mut src, BlockDecodingStrategy::UptoBlocks(blocks as usize)) {
                    Ok(fin) => {
                        if !fin {
                            had_abandoned_or_failed = true;
                            ctx.feat("history:abandoned_midway");
                        }
                    }
                    Err(_) => {
                        had_abandoned_or_failed = true;
                        ctx.feat("history:failed_in_blocks");
                    }
                }
                if drain {
                    let _ = reused.collect();
                }
            }
        }
    }
    // ---- probe
    let (probe_bytes, truth, force, sensitive, label): (Vec<u8>, Option<Vec<u8>>, Option<u32>, bool, &'static str) = match &case.probe {
        Probe::Valid(fc) => match fc.build() {
            Ok(b) => (b.frame, Some(b.content), None, false, "probe:valid"),
            Err(_) => return Ok(()),
        },
        Probe::Crafted { first, rest } => {
            let out = synth(&crafted_spec(first, rest), None, false);
            match refz::decompress(&out.bytes, None, out.content.len() + 1) {
                Ok(d) if d == out.content => {}
                _ => {
                    ctx.feat("skipped:synth_rejected_by_reference");
                    return Ok(());
                }
            }
            (out.bytes, Some(out.content), None, true, "probe:valid_repeat_offsets_first")
        }
        Probe::Patched { first, rest, patch } => {
            let out = synth(&crafted_spec(first, rest), None, false);
            match patch_frame(&out.bytes, *patch) {
                Some(p) => (p, None, None, true, ["probe:ll_repeat_without_table", "probe:of_repeat_without_table", "probe:ml_repeat_without_table", "probe:treeless_without_table"][(*patch % 4) as usize]),
                None => {
                    ctx.feat("skipped:patch_not_applicable");
                    return Ok(());
                }
            }
        }
        Probe::BeforeStart { first, rest, k } => {
            let mut first = first.clone();
            first.seqs[0].off = OffSpec::Beyond(*k);
            let out = synth(&crafted_spec(&first, rest), None, false);
            if !out.invalid {
                return Ok(());
            }
            (out.bytes, None, None, true, "probe:reaches_before_frame_start")
        }
        Probe::Dict { data, cfg, which } => match dict_frame(&dicts, &dspecs, data, cfg, *which) {
            Some((f, c, force)) => (f, Some(c), force, false, "probe:dictionary_frame"),
            None => return Ok(()),
        },
        Probe::PastWindow { exp, mant, fill, seed, first, k } => {
            let window_desc = (exp << 3) | (mant & 7);
            let window = frame::window_from_descriptor(window_desc) as usize;
            let mut first = first.clone();
            first.seqs[0].off = OffSpec::PastWindow(*k);
            // short enough that the whole block fits the block-size limit of a 1 KiB window
            first.literals.truncate(300);
            first.seqs.truncate(3);
            for q in first.seqs.iter_mut() {
                q.ml = q.ml.min(100);
            }
            let mut blocks = vec![];
            for i in 0..(*fill as usize + 1) {
                blocks.push(BlockSpec::Raw { data: DataSpec { kind: 2, len: window as u32, seed: seed.wrapping_add(i as u32), a: 3, b: 9 }.render() });
            }
            blocks.push(BlockSpec::Comp(first));
            let spec = FrameSpec { single_segment: false, window_desc, fcs_bytes: 0, checksum: seed % 2 == 0, dict_id_bytes: 0, zero_dict_id: false, blocks };
            let out = synth(&spec, None, false);
            if !out.invalid || out.window_size != window as u64 {
                ctx.feat("skipped:past_window_not_constructible");
                return Ok(());
            }
            (out.bytes, None, None, true, "probe:match_reaches_past_the_window")
        }
    };
    let drive = case.drive % 3;
    let mut fresh = new_decoder(&dicts)?;
    let mut truth = truth;
    let mut limited_out = false;
    if let (Some((kind, val)), Ok(h)) = (case.limit, frame::parse_header(&probe_bytes)) {
        let w = h.window_size;
        let l = match kind % 4 {
            0 => w.saturating_sub(1 + val as u64),
            1 => w,
            2 => w / 2,
            _ => val as u64 * 1024,
        };
        fresh.set_max_window_size(l);
        reused.set_max_window_size(l);
        ctx.feat(if l < w { "limit:lowered_below_the_probe_window_between_frames" } else { "limit:set_between_frames_at_or_above_the_probe_window" });
        if l < w {
            // (that a new decoder refuses the frame is C11's subject; here: both answer alike)
            truth = None;
            limited_out = true;
        }
    }
    let of = run_probe(&mut fresh, &probe_bytes, force, drive);
    let or = run_probe(&mut reused, &probe_bytes, force, drive);
    if of != or {
        let what = if of.result != or.result {
            format!("result fresh `{}` vs reused `{}`", of.result, or.result)
        } else if of.bytes != or.bytes {
            format!("bytes differ ({})", first_diff(&of.bytes, &or.bytes))
        } else {
            format!("observables differ: fresh (calc {:?}, stored {:?}, consumed {}, blocks {}, size {}, finished {}) vs reused (calc {:?}, stored {:?}, consumed {}, blocks {}, size {}, finished {})",
                of.calc, of.stored, of.consumed, of.blocks, of.content_size, of.finished, or.calc, or.stored, or.consumed, or.blocks, or.content_size, or.finished)
        };
        fail!("reused_decoder_differs", "{label}: {what}; probe frame {} ({} bytes) after a history of {} frame(s)", hexhead(&probe_bytes), probe_bytes.len(), case.history.len());
    }
    if let Some(t) = &truth {
        ensure!(or.result.starts_with("ok") && &or.bytes == t, "wrong_content", "{label}: valid probe on a reused decoder: result `{}`, {}", or.result, first_diff(&or.bytes, t));
    } else if limited_out {
        ctx.feat_if(!of.result.starts_with("ok"), "limit:probe_refused_by_both");
    } else if !matches!(case.probe, Probe::PastWindow { .. }) {
        // probes that are invalid by construction must not succeed (on either decoder).
        // (Not asserted for the past-the-window probe: a decoder that happens to still hold older
        // output may serve such a match - only fresh-vs-reused equality is required there.)
        ensure!(!of.result.starts_with("ok"), "invalid_probe_accepted_by_fresh_decoder", "{label}: accepted on a fresh decoder: `{}`; frame {}", of.result, hexhead(&probe_bytes));
    } else {
        ctx.feat_if(!of.result.starts_with("ok"), "probe:past_window_refused_by_fresh_decoder");
    }
    ctx.feat(label);
    ctx.feat(["drive:all_then_collect", "drive:per_block_collect", "drive:per_block_small_reads"][drive as usize]);
    ctx.feat_if(!dicts.is_empty(), "decoder:dictionaries_registered");
    ctx.nontrivial = had_abandoned_or_failed && sensitive;
    hash_parts.push(probe_bytes.clone());
    let parts: Vec<&[u8]> = hash_parts.iter().map(|v| v.as_slice()).collect();
    ctx.set_hash_bytes(&parts);
    if ctx.nontrivial && probe_bytes.len() < 80 && case.history.len() <= 2 {
        ctx.sample = Some(json!({"history_frames": case.history.len(), "probe": label, "probe_hex": hexhead(&probe_bytes), "fresh_result": of.result}));
    }
    Ok(())
}

pub fn run(eng: &Engine) {
    eng.set_rule("histories of 1..6 frames on one decoder (valid, dictionary, truncated, corrupted, a compressed block cut short inside - after its literals / sequence count / modes byte / into its table descriptions; run to completion, abandoned after k blocks with or without draining, or into their error) followed by a probe decoded on the reused decoder and on a fresh decoder with the same dictionaries; probes: valid frames, frames whose first sequences use repeat offsets, frames that are invalid on a fresh decoder (first block treeless, LL/OF/ML Repeat mode without a table, a match before the frame start, a match past the declared window into drained output), dictionary frames; the probe is decoded in one go or block by block with collect()/small reads in between (same way on both decoders); the full outcome tuple is compared; non-trivial = the history contains an abandoned or failed frame and the probe is leak-sensitive; distinct by hash of all frames");
    eng.assume("accessor values after a reset() that failed in the frame header are not compared");
    let tier = eng.tier;
    let n = eng.tier.pick(15_000, 300_000);
    eng.run_stage("reuse_histories", n, || case_strategy(tier), check);
}

pub fn replay(eng: &Engine, stage: &str, case: &Value) -> CaseResult {
    match stage {
        "reuse_histories" => eng.replay_value(stage, case, check),
        _ => Err(Failure::new("machinery", format!("unknown stage {stage}"))),
    }
}
