//! C11 Frames declaring a window above the configured limit are rejected up front.

use crate::alloc::Meter;
use crate::engine::{CaseCtx, CaseResult, Engine, Failure};
use crate::model::frame::{window_from_descriptor, MAGIC, WINDOW_MAX};
use crate::model::synth::Rng;
use crate::{ensure, fail};
use ruzstd::decoding::errors::FrameDecoderError;
use ruzstd::decoding::{BlockDecodingStrategy, FrameDecoder, StreamingDecoder, DEFAULT_MAX_WINDOW_SIZE};
use serde_json::{json, Value};

const N_LIMITS: u64 = 14;
const N_POS: u64 = 4;
const N_FRONT: u64 = 11;
/// 0: the limit is set right before the frame under test; 1: it is set on the new decoder, before the history
const N_ORDER: u64 = 2;
/// 0: FrameDecoder::new(); 1: FrameDecoder::default() - the same decoder by its documentation
const N_CTOR: u64 = 2;
/// largest accepted window for which a path that reserves the window eagerly is executed
const EAGER_CAP: u64 = 64 << 20;

const FRONT_NAMES: [&str; 11] = [
    "front:reset", "front:init", "front:decode_all", "front:decode_all_to_vec", "front:decode_from_to",
    "front:StreamingDecoder::new", "front:new_with_max_window_size", "front:new_with_decoder",
    "front:decode_all:second_frame_of_one_call", "front:decode_all_to_vec:second_frame_of_one_call", "front:decode_all:after_skippable_frame",
];
const POS_NAMES: [&str; 4] = ["pos:first_use", "pos:after_completed", "pos:after_abandoned", "pos:after_failed"];

fn fcs_values(seed: u64) -> Vec<u64> {
    let mut v = vec![
        0, 1, 255, 256, 65_791, 65_792, u32::MAX as u64, 1 << 32, DEFAULT_MAX_WINDOW_SIZE - 1, DEFAULT_MAX_WINDOW_SIZE,
        DEFAULT_MAX_WINDOW_SIZE + 1, 1 << 41, WINDOW_MAX - 1, WINDOW_MAX, WINDOW_MAX + 1, u64::MAX,
    ];
    let mut r = Rng(seed);
    for _ in 0..8 {
        v.push(r.next() >> r.below(60));
    }
    v
}

/// window descriptors and content sizes for headers that carry BOTH fields (legal, rare: the
/// reference compressor switches to single-segment when the content is smaller than the window)
const BOTH_WD: [u8; 8] = [0x00, 0x07, 0x50, 0x88, 0x89, 0x90, 0xA0, 0xF8];
const BOTH_FCS: [u64; 8] = [256, 1000, 65_791, 65_792, 1 << 20, (1 << 27) - 1, 1 << 27, 1 << 33];
const N_BOTH: u64 = 64;
/// headers with a window descriptor AND a Dictionary_ID field (1/2/4 bytes; value 0 = "no
/// dictionary", or an id the decoder does not hold: then the window verdict comes first and a
/// frame within the limit ends in DictNotProvided, which counts as "window accepted")
const N_DICT: u64 = 48;

/// header variant h: 0..=255 window descriptors, then single-segment content sizes, then
/// window descriptor + content size together
fn header_variant(h: u64, seed: u64) -> (Vec<u8>, u64, bool) {
    let mut f = MAGIC.to_le_bytes().to_vec();
    let n_fcs = fcs_values(seed).len() as u64;
    if h >= 256 + n_fcs + N_BOTH {
        let k = h - 256 - n_fcs - N_BOTH;
        let wd = BOTH_WD[(k % 8) as usize];
        let width = (k / 8 % 3) as usize;
        let id: u32 = if k / 24 % 2 == 0 { 0 } else { [0xF8, 0x5001, 0x0102_0350][width] };
        f.push(1 + width as u8);
        f.push(wd);
        f.extend_from_slice(&id.to_le_bytes()[..[1, 2, 4][width]]);
        f.extend_from_slice(&[0x09, 0, 0, 0x42]);
        return (f, window_from_descriptor(wd), false);
    }
    if h >= 256 + n_fcs {
        let k = h - 256 - n_fcs;
        let wd = BOTH_WD[(k % 8) as usize];
        let v = BOTH_FCS[(k / 8 % 8) as usize];
        let (flag, bytes): (u8, Vec<u8>) = if v <= 65_791 {
            (1, ((v - 256) as u16).to_le_bytes().to_vec())
        } else if v <= u32::MAX as u64 {
            (2, (v as u32).to_le_bytes().to_vec())
        } else {
            (3, v.to_le_bytes().to_vec())
        };
        f.push(flag << 6);
        f.push(wd);
        f.extend_from_slice(&bytes);
        f.extend_from_slice(&[0x09, 0, 0, 0x42]);
        // the declared WINDOW is what the limit is about; the content size does not shrink it
        return (f, window_from_descriptor(wd), false);
    }
    if h < 256 {
        f.push(0x00);
        f.push(h as u8);
        // one raw last block of 1 byte
        f.extend_from_slice(&[0x09, 0, 0, 0x42]);
        (f, window_from_descriptor(h as u8), false)
    } else {
        let v = fcs_values(seed)[(h - 256) as usize];
        let (flag, bytes): (u8, Vec<u8>) = if v < 256 {
            (0, vec![v as u8])
        } else if v <= 65_791 {
            (1, ((v - 256) as u16).to_le_bytes().to_vec())
        } else if v <= u32::MAX as u64 {
            (2, (v as u32).to_le_bytes().to_vec())
        } else {
            (3, v.to_le_bytes().to_vec())
        };
        f.push(0x20 | (flag << 6));
        f.extend_from_slice(&bytes);
        f.extend_from_slice(&[0x09, 0, 0, 0x42]);
        (f, v, true)
    }
}

fn limit_value(class: u64, w: u64, seed: u64, idx: u64) -> u64 {
    match class {
        0 => w.saturating_sub(1),
        1 => w,
        2 => w.saturating_add(1),
        3 => 0,
        4 => 1023,
        5 => 1024,
        6 => DEFAULT_MAX_WINDOW_SIZE - 1,
        7 => DEFAULT_MAX_WINDOW_SIZE,
        8 => DEFAULT_MAX_WINDOW_SIZE + 1,
        9 => WINDOW_MAX - 1,
        10 => WINDOW_MAX,
        11 => WINDOW_MAX + 1,
        12 => u64::MAX,
        _ => {
            let mut r = Rng(seed ^ idx);
            r.next() >> r.below(63)
        }
    }
}

const SMALL_OK: [u8; 12] = [0x28, 0xB5, 0x2F, 0xFD, 0x20, 0x03, 0x19, 0x00, 0x00, b'a', b'b', b'c']; // single segment, 3 bytes raw last
fn multi_block() -> Vec<u8> {
    // window 1 KiB, three raw blocks of 2 bytes (last flag on the third)
    let mut f = MAGIC.to_le_bytes().to_vec();
    f.extend_from_slice(&[0x00, 0x00]);
    for i in 0..3u8 {
        f.extend_from_slice(&[(2 << 3) | (i == 2) as u8, 0, 0, b'x', b'y']);
    }
    f
}
const CORRUPT: [u8; 9] = [0x28, 0xB5, 0x2F, 0xFD, 0x00, 0x00, 0x07, 0x00, 0x00]; // reserved block type

fn history(dec: &mut FrameDecoder, pos: u64) {
    match pos {
        1 => {
            let mut out = [0u8; 8];
            let _ = dec.decode_all(&SMALL_OK, &mut out);
        }
        2 => {
            let f = multi_block();
            let mut src = &f[..];
            if dec.reset(&mut src).is_ok() {
                let _ = dec.decode_blocks(&mut src, BlockDecodingStrategy::UptoBlocks(1));
            }
        }
        3 => {
            let mut out = [0u8; 8];
            let _ = dec.decode_all(&CORRUPT, &mut out);
        }
        _ => {}
    }
}

enum Verdict {
    Accepted,
    TooBig { requested: u64, max: u64 },
    Other(String),
}

fn classify<T>(r: Result<T, FrameDecoderError>) -> Verdict {
    match r {
        Ok(_) => Verdict::Accepted,
        Err(FrameDecoderError::WindowSizeTooBig { requested, max }) => Verdict::TooBig { requested, max },
        // the window was within the limit; the frame names a dictionary this decoder was not given
        Err(FrameDecoderError::DictNotProvided { .. }) => Verdict::Accepted,
        Err(e) => Verdict::Other(format!("{e}")),
    }
}

fn item(idx: u64, ctx: &mut CaseCtx, seed: u64) -> CaseResult {
    let front = idx % N_FRONT;
    let pos = (idx / N_FRONT) % N_POS;
    let lclass = (idx / N_FRONT / N_POS) % N_LIMITS;
    let order = (idx / N_FRONT / N_POS / N_LIMITS) % N_ORDER;
    let ctor = (idx / N_FRONT / N_POS / N_LIMITS / N_ORDER) % N_CTOR;
    let h = idx / N_FRONT / N_POS / N_LIMITS / N_ORDER / N_CTOR;
    let (frame, w, single) = header_variant(h, seed);
    let mut limit = limit_value(lclass, w, seed, idx);
    // fronts without a decoder handle: no history possible
    if (front == 5 || front == 6) && pos != 0 {
        ctx.weight = 1;
        return Ok(());
    }
    if front == 5 {
        limit = DEFAULT_MAX_WINDOW_SIZE;
    }
    let effective = limit.min(WINDOW_MAX);
    let should_accept = w <= effective;
    // paths that reserve the whole window eagerly (reuse) are only *executed* for moderate windows
    let reuse = pos != 0 || front >= 8;
    if should_accept && reuse && w > EAGER_CAP {
        ctx.feat("excluded:accept_on_reuse_path_reserves_window");
        return Ok(());
    }
    if order == 1 && (pos == 0 || front == 5 || front == 6) {
        // without a history (or a decoder handle) the two orders are the same program
        ctx.weight = 1;
        return Ok(());
    }
    if ctor == 1 && (front == 5 || front == 6 || lclass != 7) {
        // the constructor matters only while nobody has set a limit: the second constructor is
        // run with the limit class "default" only, where no set_max_window_size call happens at all
        ctx.weight = 1;
        return Ok(());
    }
    let untouched_default = lclass == 7;
    let mut dec = if ctor == 1 { FrameDecoder::default() } else { FrameDecoder::new() };
    if ctor == 1 {
        ctx.feat("constructor:Default::default()");
    }
    if order == 1 && !(untouched_default && ctor == 1) {
        // the caller configures the decoder once; the limit has to survive every earlier frame
        dec.set_max_window_size(limit);
    }
    history(&mut dec, pos);
    if front != 5 && front != 6 {
        if order == 0 && !(untouched_default && ctor == 1) {
            dec.set_max_window_size(limit);
        }
        if untouched_default && ctor == 1 {
            ensure!(dec.max_window_size() == effective, "default_limit_wrong", "a decoder from Default::default() reports max_window_size() = {}, the documented default is {effective}", dec.max_window_size());
        }
        ensure!(dec.max_window_size() == effective, "limit_not_clamped", "set_max_window_size({limit}) -> max_window_size() = {}, expected {effective}", dec.max_window_size());
    }
    let meter = Meter::start();
    let verdict = match front {
        0 => classify(dec.reset(&frame[..])),
        1 => classify(dec.init(&frame[..])),
        2 => {
            let mut out = [0u8; 4];
            classify(dec.decode_all(&frame, &mut out))
        }
        3 => {
            let mut out = Vec::with_capacity(4);
            classify(dec.decode_all_to_vec(&frame, &mut out))
        }
        4 => {
            // decode_from_to initialises only a decoder that was never used; on a used one the caller resets first
            if reuse {
                classify(dec.reset(&frame[..]))
            } else {
                let mut out = [0u8; 4];
                classify(dec.decode_from_to(&frame, &mut out))
            }
        }
        5 => classify(StreamingDecoder::new(&frame[..]).map(|_| ())),
        6 => classify(StreamingDecoder::new_with_max_window_size(&frame[..], limit).map(|_| ())),
        7 => classify(StreamingDecoder::new_with_decoder(&frame[..], &mut dec).map(|_| ())),
        8 | 9 | 10 => {
            // multi-frame call: the frame under test is not the first thing in the input
            // (the leading data frame has a 3-byte window itself: under a limit below that a skippable frame leads)
            let mut input: Vec<u8> = if front == 10 || effective < 3 { vec![0x5A, 0x2A, 0x4D, 0x18, 2, 0, 0, 0, 7, 7] } else { SMALL_OK.to_vec() };
            input.extend_from_slice(&frame);
            if front == 9 {
                let mut out = Vec::with_capacity(8);
                classify(dec.decode_all_to_vec(&input, &mut out))
            } else {
                let mut out = [0u8; 8];
                classify(dec.decode_all(&input, &mut out))
            }
        }
        _ => unreachable!(),
    };
    let largest = meter.largest_request();
    match verdict {
        Verdict::Accepted => {
            ensure!(should_accept, "oversized_window_accepted", "window {w} accepted with limit {limit} (effective {effective}) via {} at {}; header {:02x?}", FRONT_NAMES[front as usize], POS_NAMES[pos as usize], &frame[..frame.len() - 4]);
        }
        Verdict::TooBig { requested, max } => {
            ensure!(!should_accept, "legal_window_rejected", "window {w} <= effective limit {effective} rejected via {} at {}; header {:02x?}", FRONT_NAMES[front as usize], POS_NAMES[pos as usize], &frame[..frame.len() - 4]);
            ensure!(requested == w && max == effective, "rejection_reports_wrong_values", "rejection reports requested {requested} max {max}, expected {w} / {effective}");
            if w >= 65_536 {
                ensure!((largest as u64) < w / 2, "allocation_before_check", "a request of {largest} bytes was made before window {w} was rejected ({} at {})", FRONT_NAMES[front as usize], POS_NAMES[pos as usize]);
            }
        }
        Verdict::Other(e) => fail!("unexpected_error", "window {w} limit {limit} via {} at {}: {e}; header {:02x?}", FRONT_NAMES[front as usize], POS_NAMES[pos as usize], &frame[..frame.len() - 4]),
    }
    ctx.feat(FRONT_NAMES[front as usize]);
    ctx.feat(POS_NAMES[pos as usize]);
    ctx.feat(if order == 1 { "limit:set_once_before_the_history" } else { "limit:set_right_before_the_frame" });
    ctx.feat(if should_accept { "verdict:accept" } else { "verdict:reject" });
    ctx.feat_if(single, "header:single_segment_fcs");
    ctx.nontrivial = (w as i128 - effective as i128).abs() <= 1 || reuse;
    if ctx.nontrivial && h == 0x7F && front == 0 && lclass == 1 {
        ctx.sample = Some(json!({"window_descriptor": h, "window": w, "limit": limit, "position": POS_NAMES[pos as usize], "front_end": FRONT_NAMES[front as usize], "expected": if should_accept {"accept"} else {"reject"}}));
    }
    Ok(())
}

pub fn run(eng: &Engine) {
    eng.set_rule("complete product of header variant (all 256 window descriptors + single-segment content sizes in every field width + 64 headers carrying a window descriptor AND a content size) x 14 limit classes (w-1, w, w+1, 0, 1023, 1024, default+-1, format maximum+-1, u64::MAX, random) x 2 orders (limit set right before the frame / once on the new decoder, before the history) x 4 history positions x 11 front ends (reset, init, decode_all, decode_all_to_vec, decode_from_to, the three StreamingDecoder constructors, and the frame as second frame / after a skippable frame inside one multi-frame call); oracle: accept iff window <= min(limit, format maximum); non-trivial = |window - effective limit| <= 1 or a reuse position; cases distinct by index");
    eng.assume("acceptance on paths that reserve the whole window eagerly (reset of a used decoder) is executed only for windows <= 64 MiB; excluded (header, path) pairs are counted under features excluded:*; rejection is executed everywhere");
    eng.assume("the allocation clause is checked for windows >= 64 KiB (below that a window-sized request cannot be told from ordinary scratch)");
    let seed = eng.seed;
    let headers = 256 + fcs_values(seed).len() as u64 + N_BOTH + N_DICT;
    let total = headers * N_CTOR * N_ORDER * N_LIMITS * N_POS * N_FRONT;
    eng.run_enumerated("window_limit_product", "header variant x limit class x position x front end", total, 512, move |i, c| item(i, c, seed));
    // single-segment sizes and random limits are sampled, the descriptor product is complete
    eng.set_extra("exhaustive_note", json!("all 256 window descriptors x 13 fixed limit classes x 2 orders x 4 positions x 11 front ends enumerated completely; content-size values and the random limit class are sampled"));
}

pub fn replay(eng: &Engine, stage: &str, case: &Value) -> CaseResult {
    let i = case["index"].as_u64().ok_or_else(|| Failure::new("machinery", "C11 case must carry an index"))?;
    let seed = case["seed"].as_u64().unwrap_or(eng.seed);
    let _ = stage;
    let mut ctx = CaseCtx::default();
    item(i, &mut ctx, seed)
}
