//! C01 Decoder reproduces the original data for every valid frame (and reports its metadata).

use crate::drivers::{run_driver, DRIVER_NAMES};
use crate::engine::{CaseCtx, CaseResult, Engine, Failure};
use crate::gen::frames::{frame_case_strategy, label_features, FrameCase, Skip};
use crate::model::frame::{self, WalkOpts};
use crate::model::xxh64;
use crate::{ensure, refz, selftest};
use serde_json::{json, Value};
use std::sync::atomic::{AtomicU64, Ordering};

pub static SYNTH_REJECTED: AtomicU64 = AtomicU64::new(0);
pub static SYNTH_ACCEPTED: AtomicU64 = AtomicU64::new(0);
pub static REF_REFUSED: AtomicU64 = AtomicU64::new(0);
pub static WALKER_DISAGREES: AtomicU64 = AtomicU64::new(0);

pub fn hexhead(b: &[u8]) -> String {
    let mut s = String::new();
    for x in b.iter().take(48) {
        s.push_str(&format!("{x:02x}"));
    }
    if b.len() > 48 {
        s.push_str(&format!("…({} bytes)", b.len()));
    }
    s
}

pub fn first_diff(a: &[u8], b: &[u8]) -> String {
    let n = a.iter().zip(b.iter()).take_while(|(x, y)| x == y).count();
    format!("lengths {} vs {}, first difference at byte {}", a.len(), b.len(), n)
}

pub fn check_frame(case: &FrameCase, ctx: &mut CaseCtx) -> CaseResult {
    let built = match case.build() {
        Ok(b) => b,
        Err(Skip::RefRefused(e)) => {
            if std::env::var("VERIF_DEBUG").is_ok() {
                eprintln!("ref refused: {e}");
            }
            REF_REFUSED.fetch_add(1, Ordering::Relaxed);
            ctx.feat("skipped:reference_refused_config");
            return Ok(());
        }
        Err(Skip::SynthRejected(e)) => {
            if std::env::var("VERIF_DEBUG").is_ok() {
                eprintln!("synth rejected: {e} :: {}", crate::engine::truncate(&format!("{case:?}"), 300));
            }
            SYNTH_REJECTED.fetch_add(1, Ordering::Relaxed);
            ctx.feat("skipped:synth_rejected_by_reference");
            return Ok(());
        }
    };
    if !matches!(case, FrameCase::Ref { .. }) {
        SYNTH_ACCEPTED.fetch_add(1, Ordering::Relaxed);
    }
    ctx.feat(built.source);
    let frame_bytes = &built.frame;
    let content = &built.content;
    // model walker: structure + independent decode (self-check of the oracle, never a violation)
    let info = match frame::walk(frame_bytes, &WalkOpts::default()) {
        Ok(i) if &i.content == content => Some(i),
        _ => {
            WALKER_DISAGREES.fetch_add(1, Ordering::Relaxed);
            None
        }
    };
    let rh = refz::frame_header(frame_bytes).map_err(|e| Failure::new("machinery", format!("reference header parse failed: {e}")))?;
    let window = rh.window_size;
    let max_window = if window > ruzstd::decoding::DEFAULT_MAX_WINDOW_SIZE { Some(window) } else { None };
    let want_checksum = if rh.checksum {
        Some(u32::from_le_bytes(frame_bytes[frame_bytes.len() - 4..].try_into().unwrap()))
    } else {
        None
    };
    for d in 0..4 {
        let o = match run_driver(d, frame_bytes, &[], max_window, content.len(), content.len() + (1 << 20)) {
            Ok(o) => o,
            Err(e) => {
                return Err(Failure::new(
                    "valid_frame_rejected",
                    format!("driver {} fails on a valid frame ({}): {e}; frame {}", DRIVER_NAMES[d], built.source, hexhead(frame_bytes)),
                ))
            }
        };
        ensure!(&o.bytes == content, "wrong_content", "driver {}: decoded content differs ({}); frame {}", DRIVER_NAMES[d], first_diff(&o.bytes, content), hexhead(frame_bytes));
        ensure!(o.finished, "not_finished", "driver {}: frame fully decoded but is_finished() is false", DRIVER_NAMES[d]);
        ensure!(o.content_size == rh.content_size.unwrap_or(0), "content_size_meta", "driver {}: content_size() = {}, frame declares {:?}", DRIVER_NAMES[d], o.content_size, rh.content_size);
        ensure!(o.data_checksum == want_checksum, "checksum_meta", "driver {}: get_checksum_from_data() = {:?}, frame carries {:?}", DRIVER_NAMES[d], o.data_checksum, want_checksum);
        ensure!(o.consumed == frame_bytes.len() as u64, "consumed", "driver {}: consumed {} of {} frame bytes", DRIVER_NAMES[d], o.consumed, frame_bytes.len());
        if let Some(c) = want_checksum {
            ensure!(o.calc_checksum == Some(c) && c == xxh64::checksum32(content), "checksum_value", "driver {}: calculated checksum {:?}, stored {c:#x}", DRIVER_NAMES[d], o.calc_checksum);
        }
    }
    ctx.nontrivial = match &info {
        Some(i) => label_features(i, ctx),
        None => false,
    };
    ctx.set_hash_bytes(&[frame_bytes]);
    if ctx.nontrivial && frame_bytes.len() < 120 {
        ctx.sample = Some(json!({"source": built.source, "frame_hex": hexhead(frame_bytes), "content_len": content.len()}));
    }
    Ok(())
}

pub fn run(eng: &Engine) {
    eng.set_rule("frames from three sources (reference-compressed under generated configurations; reference parses perturbed and pushed through ZSTD_compressSequences; spec-directed synthesized frames arbitrated by the reference decoder), each decoded by four drivers; non-trivial = contains a compressed block with >= 1 sequence or Huffman-coded literals (per the model walker); distinct by frame hash");
    eng.assume("libzstd 1.5.7 is the arbiter of validity; the RFC-transcribed model walker is self-tested against it in every run");
    selftest::code_tables(eng);
    let n = eng.tier.pick(30_000, 400_000);
    let tier = eng.tier;
    eng.run_stage("frames", n, || frame_case_strategy(tier), check_frame);
    let rej = SYNTH_REJECTED.load(Ordering::Relaxed);
    let acc = SYNTH_ACCEPTED.load(Ordering::Relaxed);
    let dis = WALKER_DISAGREES.load(Ordering::Relaxed);
    eng.selftest_count("synth_frames_accepted_by_reference", acc);
    eng.selftest_count("synth_frames_rejected_by_reference", rej);
    eng.selftest_count("reference_refused_configuration", REF_REFUSED.load(Ordering::Relaxed));
    eng.selftest_count("walker_disagrees_with_reference", dis);
    if rej > acc / 2 + 20 {
        eng.machinery_broken(&format!("the reference decoder rejects {rej} of {} synthesized frames", rej + acc));
    }
    if dis > (acc + n) / 50 + 5 {
        eng.machinery_broken(&format!("the model walker disagrees with the reference on {dis} frames"));
    }
}

pub fn replay(eng: &Engine, stage: &str, case: &Value) -> CaseResult {
    match stage {
        "frames" => eng.replay_value(stage, case, check_frame),
        _ => Err(Failure::new("machinery", format!("unknown stage {stage}"))),
    }
}
