//! C17 Built-in match finder reports only true, in-window matches that tile the block.

use crate::engine::{CaseCtx, CaseResult, Engine, Failure, Tier};
use crate::model::synth::Rng;
use crate::{ensure, fail};
use proptest::prelude::*;
use ruzstd::encoding::{CompressionLevel, MatchGeneratorDriver, Matcher, Sequence};
use serde::{Deserialize, Serialize};
use serde_json::{json, Value};

#[derive(Clone, Debug, Serialize, Deserialize)]
pub enum Step {
    /// block of `len` bytes (clamped to the space), data flavour, seed; matched or skipped
    Block { len: u16, flavour: u8, seed: u16, skip: bool },
    Reset,
}

#[derive(Clone, Debug, Serialize, Deserialize)]
pub struct Case {
    pub slice_size: u16,
    pub slices: u8,
    pub steps: Vec<Step>,
}

fn fill(buf: &mut [u8], flavour: u8, seed: u16, history: &[u8]) {
    if buf.is_empty() {
        return;
    }
    let mut r = Rng(seed as u64 * 31 + flavour as u64);
    match flavour % 7 {
        0 => buf.iter_mut().for_each(|b| *b = r.below(2) as u8),
        1 => buf.iter_mut().for_each(|b| *b = r.below(3) as u8),
        2 => buf.iter_mut().for_each(|b| *b = r.below(4) as u8),
        3 => {
            let p = 1 + r.below(9) as usize;
            let pat: Vec<u8> = (0..p).map(|_| r.below(4) as u8).collect();
            for (i, b) in buf.iter_mut().enumerate() {
                *b = pat[i % p];
            }
        }
        4 => buf.iter_mut().for_each(|b| *b = r.next() as u8),
        5 => {
            // copy of earlier history with a few mutations: long cross-block matches
            for (i, b) in buf.iter_mut().enumerate() {
                *b = if history.is_empty() { (i % 5) as u8 } else { history[(seed as usize + i) % history.len()] };
            }
            for _ in 0..r.below(3) {
                let i = r.below(buf.len() as u64) as usize;
                buf[i] ^= 1;
            }
        }
        _ => buf.iter_mut().for_each(|b| *b = (r.below(16) * r.below(16) / 16) as u8),
    }
}

pub fn check(case: &Case, ctx: &mut CaseCtx) -> CaseResult {
    let slice = (case.slice_size as usize).max(1);
    let slices = (case.slices as usize).max(1);
    let mut m = MatchGeneratorDriver::verif_new(slice, slices);
    run_history(&mut m, slice * slices, &case.steps, ctx, None)
}

/// `fixed`: explicit block contents (exhaustive family) instead of generated flavours
fn run_history(m: &mut MatchGeneratorDriver, max_window: usize, steps: &[Step], ctx: &mut CaseCtx, fixed: Option<&[Vec<u8>]>) -> CaseResult {
    m.reset(CompressionLevel::Fastest);
    let mut history: Vec<u8> = vec![]; // all bytes of the current frame
    let mut retained: Vec<usize> = vec![]; // lengths of the blocks still in the matcher's window
    let mut blocks_matched = 0;
    let mut evicted_before_match = false;
    let mut after_reset = false;
    let mut cross_slice_match = false;
    let mut any_match = false;
    let mut far_match = false;
    let mut bi = 0usize;
    for (si, st) in steps.iter().enumerate() {
        match st {
            Step::Reset => {
                m.reset(CompressionLevel::Fastest);
                history.clear();
                retained.clear();
                after_reset = true;
            }
            Step::Block { len, flavour, seed, skip } => {
                let mut space = m.get_next_space();
                ensure!(!space.is_empty(), "empty_space", "get_next_space returned an empty buffer");
                let n = match fixed {
                    Some(f) => f[bi].len(),
                    None => (*len as usize).min(space.len()), // 0: an empty block is a block too
                };
                ensure!(n <= space.len() && n <= max_window, "space_too_small", "space of {} bytes for a block of {n}", space.len());
                match fixed {
                    Some(f) => space[..n].copy_from_slice(&f[bi]),
                    None => fill(&mut space[..n], *flavour, *seed, &history),
                }
                bi += 1;
                space.truncate(n);
                let block_start = history.len();
                history.extend_from_slice(&space);
                let block_end = history.len();
                // model of the retained window (as the documentation of the window promises)
                let mut evicted = false;
                while retained.iter().sum::<usize>() + n > max_window {
                    retained.remove(0);
                    evicted = true;
                }
                let retained_before: usize = retained.iter().sum();
                retained.push(n);
                m.commit_space(space);
                ensure!(m.get_last_space() == &history[block_start..block_end], "last_space_differs", "get_last_space does not return the committed block");
                let window = m.window_size() as usize;
                ensure!(window <= max_window, "window_larger_than_configured", "window_size() = {window} > configured {max_window}");
                if *skip {
                    m.skip_matching();
                    continue;
                }
                blocks_matched += 1;
                let mut pos = block_start;
                let mut literals_seen = false;
                let mut err: Option<Failure> = None;
                let hist = &history;
                m.start_matching(|seq| {
                    if err.is_some() {
                        return;
                    }
                    let mut f = |kind: &str, msg: String| err = Some(Failure::new(kind, msg));
                    if literals_seen {
                        f("sequence_after_literals", format!("step #{si}: a sequence follows the trailing Literals"));
                        return;
                    }
                    match seq {
                        Sequence::Triple { literals, offset, match_len } => {
                            if pos + literals.len() > block_end || literals != &hist[pos..pos + literals.len()] {
                                f("literals_wrong", format!("step #{si}: literal run at {} (len {}) does not carry the block's bytes", pos - block_start, literals.len()));
                                return;
                            }
                            pos += literals.len();
                            if match_len == 0 || offset == 0 {
                                f("empty_match", format!("step #{si}: match with offset {offset} length {match_len}"));
                                return;
                            }
                            if offset > window {
                                f("offset_beyond_window", format!("step #{si}: offset {offset} > window_size() {window}"));
                                return;
                            }
                            if offset > pos {
                                f("offset_before_frame_start", format!("step #{si}: offset {offset} at frame position {pos}"));
                                return;
                            }
                            if offset > retained_before + (pos - block_start) {
                                f("offset_beyond_retained_data", format!("step #{si}: offset {offset} but only {} bytes are retained before the match", retained_before + (pos - block_start)));
                                return;
                            }
                            if pos + match_len > block_end {
                                f("match_overruns_block", format!("step #{si}: match of {match_len} at {} overruns the block of {}", pos - block_start, block_end - block_start));
                                return;
                            }
                            for k in 0..match_len {
                                if hist[pos - offset + k] != hist[pos + k] {
                                    f("false_match", format!("step #{si}: match (offset {offset}, length {match_len}) at block position {}: byte {k} differs", pos - block_start));
                                    return;
                                }
                            }
                            if offset > pos - block_start {
                                cross_slice_match = true;
                            }
                            any_match = true;
                            if offset > 8 << 20 {
                                far_match = true;
                            }
                            if evicted || !retained.is_empty() && retained_before < block_start {
                                evicted_before_match = true;
                            }
                            pos += match_len;
                        }
                        Sequence::Literals { literals } => {
                            literals_seen = true;
                            if pos + literals.len() != block_end || literals != &hist[pos..block_end] {
                                f("literals_wrong", format!("step #{si}: trailing literals (len {}) do not complete the block (at {} of {})", literals.len(), pos - block_start, block_end - block_start));
                                return;
                            }
                            pos = block_end;
                        }
                    }
                });
                if let Some(e) = err {
                    return Err(e);
                }
                ensure!(pos == block_end, "block_not_tiled", "step #{si}: sequences cover {} of {} bytes", pos - block_start, block_end - block_start);
            }
        }
    }
    ctx.feat_if(any_match, "match:found");
    ctx.feat_if(far_match, "match:distance_above_8MiB");
    ctx.feat_if(cross_slice_match, "match:source_in_earlier_slice");
    ctx.feat_if(evicted_before_match, "match:after_eviction");
    ctx.feat_if(after_reset && any_match, "match:after_reset_reuse");
    ctx.nontrivial = blocks_matched >= 1 && any_match && (cross_slice_match || evicted_before_match || after_reset);
    Ok(())
}

fn case_strategy() -> impl Strategy<Value = Case> {
    let step = prop_oneof![
        12 => (prop_oneof![1 => Just(0u16), 6 => 1u16..=4, 6 => 1u16..=40, 6 => 1u16..=4096], 0u8..=6, any::<u16>(), prop::bool::weighted(0.2)).prop_map(|(len, flavour, seed, skip)| Step::Block { len, flavour, seed, skip }),
        1 => Just(Step::Reset),
    ];
    (prop_oneof![8u16..=16, 8u16..=200, 200u16..=4096], 1u8..=8, prop::collection::vec(step, 1..=24)).prop_map(|(slice_size, slices, steps)| Case { slice_size, slices, steps })
}

fn check_generated(case: &Case, ctx: &mut CaseCtx) -> CaseResult {
    check(case, ctx)?;
    ctx.set_hash_bytes(&[serde_json::to_vec(case).unwrap().as_slice()]);
    if ctx.nontrivial && case.steps.len() <= 3 {
        ctx.sample = Some(serde_json::to_value(case).unwrap());
    }
    Ok(())
}

/// A window of more than 8 MiB (130..150 slices of 65535 bytes): one matched block, the slices in
/// between skipped, then 1..3 blocks that copy from the very first block - matches at distances
/// beyond 8 MiB, still inside the window the driver was configured with and advertises.
fn check_large(case: &(u16, u8, u8), ctx: &mut CaseCtx) -> CaseResult {
    let (seed, extra, tail) = *case;
    let slices = 130 + (extra % 21) as usize;
    let tail = 1 + (tail % 3) as usize;
    // incompressible blocks: the copies at the end can only be found in the very first block
    let mut steps = vec![Step::Block { len: 65_535, flavour: 4, seed, skip: false }];
    for k in 0..slices - 1 - tail {
        steps.push(Step::Block { len: 65_535, flavour: 4, seed: seed.wrapping_add(1 + k as u16), skip: true });
    }
    for k in 0..tail {
        steps.push(Step::Block { len: 65_535, flavour: 5, seed: seed.wrapping_mul(3).wrapping_add(k as u16 * 977) % 40_000, skip: false });
    }
    let mut m = MatchGeneratorDriver::verif_new(65_535, slices);
    run_history(&mut m, 65_535 * slices, &steps, ctx, None)?;
    ctx.feat("window:larger_than_8MiB");
    ctx.nontrivial = true;
    ctx.set_hash_bytes(&[format!("{case:?}").as_bytes()]);
    Ok(())
}

/// production configuration: 128 KiB x 1
fn check_production(case: &(Vec<(u32, u8, u16, bool)>,), ctx: &mut CaseCtx) -> CaseResult {
    let steps: Vec<Step> = case.0.iter().map(|(len, flavour, seed, skip)| Step::Block { len: (*len).min(65_535) as u16, flavour: *flavour, seed: *seed, skip: *skip }).collect();
    let mut m = MatchGeneratorDriver::verif_new(128 * 1024, 1);
    run_history(&mut m, 128 * 1024, &steps, ctx, None)?;
    ctx.set_hash_bytes(&[serde_json::to_vec(&case.0).unwrap().as_slice()]);
    Ok(())
}

/// exhaustive: every binary string of length L <= 16, split into every composition of <= 3 blocks
/// (parts <= 8), slice size 8, window 2 slices. index -> (L, bits, composition)
fn exhaustive_item(idx: u64, ctx: &mut CaseCtx) -> CaseResult {
    // enumerate per length: strings 2^L, compositions into 1..=3 parts each in 1..=8
    let mut i = idx;
    for l in 1..=16usize {
        let comps = compositions(l);
        let n = (1u64 << l) * comps.len() as u64;
        if i < n {
            let bits = i / comps.len() as u64;
            let comp = &comps[(i % comps.len() as u64) as usize];
            let data: Vec<u8> = (0..l).map(|k| ((bits >> k) & 1) as u8).collect();
            let mut blocks = vec![];
            let mut p = 0;
            for &c in comp {
                blocks.push(data[p..p + c].to_vec());
                p += c;
            }
            let steps: Vec<Step> = blocks.iter().map(|_| Step::Block { len: 0, flavour: 0, seed: 0, skip: false }).collect();
            let mut m = MatchGeneratorDriver::verif_new(8, 2);
            run_history(&mut m, 16, &steps, ctx, Some(&blocks)).map_err(|mut f| {
                f.msg = format!("{}; data {:?} blocks {:?}", f.msg, data, comp);
                f
            })?;
            ctx.enumerated = true;
            return Ok(());
        }
        i -= n;
    }
    Ok(())
}

fn compositions(l: usize) -> Vec<Vec<usize>> {
    let mut out = vec![];
    for a in 1..=8usize.min(l) {
        if a == l {
            out.push(vec![a]);
        }
        for b in 1..=8usize.min(l.saturating_sub(a)) {
            if a + b == l {
                out.push(vec![a, b]);
            }
            if l > a + b {
                let c = l - a - b;
                if c <= 8 {
                    out.push(vec![a, b, c]);
                }
            }
        }
    }
    out
}

fn exhaustive_total() -> u64 {
    (1..=16usize).map(|l| (1u64 << l) * compositions(l).len() as u64).sum()
}

pub fn run(eng: &Engine) {
    eng.set_rule("histories of blocks fed to the built-in MatchGeneratorDriver through the public Matcher protocol (get_next_space / commit_space / start_matching | skip_matching / reset) with scaled-down windows (slice 8..4096 bytes x 1..8 slices) and the production 128 KiB x 1; data over alphabets of 2..4 symbols, periodic data, copies of earlier history, random; validity predicate per reported sequence (literals carry the block's bytes, match_len >= 1, 1 <= offset <= window_size(), offset <= bytes retained before the match, the bytes at the stated distance equal the matched bytes, trailing Literals at most once and last, sequences tile the block exactly); non-trivial = a match whose source lies in an earlier slice, or after an eviction, or after a reset/reuse; distinct by history hash; thorough adds the exhaustive family (every binary string of length <= 16 in every composition of <= 3 blocks, slice 8, window 2 slices)");
    eng.assume("the minimum match length (5) is an implementation choice and is not asserted");
    let n = eng.tier.pick(200_000, 3_000_000);
    eng.run_stage("scaled_windows", n, case_strategy, check_generated);
    let n2 = eng.tier.pick(2_000, 30_000);
    eng.run_stage(
        "production_window",
        n2,
        || (prop::collection::vec((prop_oneof![1u32..=40, 1u32..=65_535], 0u8..=6, any::<u16>(), prop::bool::weighted(0.2)), 1..=6),),
        check_production,
    );
    let n3 = eng.tier.pick(16, 160);
    eng.run_stage("window_above_8MiB", n3, || (any::<u16>(), 0u8..=20, 0u8..=2), check_large);
    if eng.tier == Tier::Thorough {
        eng.run_enumerated("exhaustive_binary_strings", "every binary string of length <= 16 x every composition into <= 3 blocks (parts <= 8), slice 8, window 16", exhaustive_total(), 4096, |i, c| {
            let r = exhaustive_item(i, c);
            c.nontrivial = true;
            r
        });
    } else {
        // quick: the same family up to length 10
        let total: u64 = (1..=10usize).map(|l| (1u64 << l) * compositions(l).len() as u64).sum();
        eng.run_enumerated("exhaustive_binary_strings", "every binary string of length <= 10 x every composition into <= 3 blocks (parts <= 8), slice 8, window 16", total, 1024, |i, c| {
            let r = exhaustive_item(i, c);
            c.nontrivial = true;
            r
        });
    }
}

pub fn replay(eng: &Engine, stage: &str, case: &Value) -> CaseResult {
    match stage {
        "scaled_windows" => eng.replay_value(stage, case, check_generated),
        "production_window" => eng.replay_value(stage, case, check_production),
        "window_above_8MiB" => eng.replay_value(stage, case, check_large),
        "exhaustive_binary_strings" => {
            let i = case["index"].as_u64().ok_or_else(|| Failure::new("machinery", "index missing"))?;
            let mut ctx = CaseCtx::default();
            exhaustive_item(i, &mut ctx)
        }
        _ => Err(Failure::new("machinery", format!("unknown stage {stage}"))),
    }
}
