//! C03 No input can make decoding panic, corrupt memory or hang (deterministic harness layer;
//! the coverage-guided layer lives in /verif/fuzz and is driven by scripts/extra-C03.sh).

use crate::engine::{CaseCtx, CaseResult, Engine, Failure, Tier};
use crate::gen::dicts::{dict_strategy, DictSpec};
use crate::gen::frames::{frame_case_custom, FrameCase};
use crate::model::frame::{self, WalkOpts};
use crate::gen::framespec::{comp_strategy, framespec_strategy};
use crate::model::synth::{synth, BlockSpec, CompSpec, FrameSpec, OffSpec, Rng, SeqSpec};
use crate::{ensure, fail};
use proptest::prelude::*;
use ringops::decode_drive::{drive, good_frame, output_bound, Entry};
use ruzstd::decoding::{BlockDecodingStrategy, Dictionary, FrameDecoder};
use serde::{Deserialize, Serialize};
use serde_json::{json, Value};


#[derive(Clone, Debug, Serialize, Deserialize)]
pub enum Mutation {
    FlipBit { at: u16, bit: u8 },
    SetByte { at: u16, val: u8 },
    Truncate { at: u16 },
    Extend { n: u8, seed: u8 },
    /// format-aware: pick the k-th field of the class and change it
    Field { class: u8, k: u8, how: u8, val: u8 },
    /// copy a slice of the frame somewhere else in it
    Splice { from: u16, to: u16, len: u16 },
    /// overwrite with bytes of another frame
    Cross { at: u16, from: u16, len: u16 },
}

#[derive(Clone, Debug, Serialize, Deserialize)]
pub enum Base {
    Frame(FrameCase),
    /// magic + generated descriptor/window + random body
    Blind { desc: u8, wd: u8, len: u16, seed: u32 },
    /// two frames / skippable + frame concatenated
    Multi(FrameCase, FrameCase),
}

#[derive(Clone, Debug, Serialize, Deserialize)]
pub struct Case {
    pub base: Base,
    pub other: Option<FrameCase>,
    pub muts: Vec<Mutation>,
    pub entry: Entry,
    /// decode with a (mutated) dictionary registered
    pub dict: Option<(DictSpec, Vec<Mutation>)>,
    pub limit: Option<u32>,
    /// the decoder has completely decoded a valid frame (Huffman table, FSE-described sequence
    /// tables, moved repeat offsets, checksum) before the hostile input arrives
    #[serde(default)]
    pub warm: bool,
}

fn mutation_strategy() -> impl Strategy<Value = Mutation> {
    prop_oneof![
        3 => (any::<u16>(), 0u8..=7).prop_map(|(at, bit)| Mutation::FlipBit { at, bit }),
        3 => (any::<u16>(), prop_oneof![Just(0u8), Just(0xFFu8), Just(0x80u8), any::<u8>()]).prop_map(|(at, val)| Mutation::SetByte { at, val }),
        1 => any::<u16>().prop_map(|at| Mutation::Truncate { at }),
        1 => (1u8..=40, any::<u8>()).prop_map(|(n, seed)| Mutation::Extend { n, seed }),
        10 => (0u8..=11, 0u8..=5, 0u8..=5, any::<u8>()).prop_map(|(class, k, how, val)| Mutation::Field { class, k, how, val }),
        1 => (any::<u16>(), any::<u16>(), 1u16..=300).prop_map(|(from, to, len)| Mutation::Splice { from, to, len }),
        1 => (any::<u16>(), any::<u16>(), 1u16..=300).prop_map(|(at, from, len)| Mutation::Cross { at, from, len }),
    ]
}

fn entry_strategy() -> impl Strategy<Value = Entry> {
    let n = || prop_oneof![Just(0u32), Just(1u32), 1u32..=5, 1u32..=100_000];
    prop_oneof![
        2 => prop_oneof![Just(1u32), 1u32..=64, 1u32..=70_000].prop_map(|read| Entry::Streaming { read }),
        4 => (0u8..=2, n(), 0u8..=3).prop_map(|(strat, n, drain)| Entry::Blocks { strat, n, drain }),
        2 => (prop_oneof![1u32..=40, 1u32..=5000, 100_000u32..=300_000], prop_oneof![Just(0u32), 1u32..=100, 1u32..=100_000]).prop_map(|(chunk, target)| Entry::FromTo { chunk, target }),
        2 => prop_oneof![Just(0u32), 1u32..=1000, 1u32..=2_000_000].prop_map(|target| Entry::DecodeAll { target }),
        1 => (0u32..=100_000).prop_map(|spare| Entry::DecodeAllToVec { spare }),
    ]
}

fn case_strategy(tier: Tier) -> impl Strategy<Value = Case> {
    let max_len = if tier == Tier::Quick { 30_000 } else { 300_000 };
    let fc = move || frame_case_custom(max_len, 20, 10, 300, false);
    let base = prop_oneof![
        8 => fc().prop_map(Base::Frame),
        2 => (any::<u8>(), any::<u8>(), 0u16..=3000, any::<u32>()).prop_map(|(desc, wd, len, seed)| Base::Blind { desc, wd, len, seed }),
        1 => (fc(), fc()).prop_map(|(a, b)| Base::Multi(a, b)),
    ];
    (
        base,
        prop::option::weighted(0.15, fc()),
        prop::collection::vec(mutation_strategy(), 0..=4),
        entry_strategy(),
        prop::option::weighted(0.2, (dict_strategy(), prop::collection::vec(mutation_strategy(), 0..=3))),
        prop::option::weighted(0.2, prop_oneof![Just(0u32), Just(1024u32), 1u32..=10_000_000]),
        prop::bool::weighted(0.4),
    )
        .prop_map(|(base, other, muts, entry, dict, limit, warm)| Case { base, other, muts, entry, dict, limit, warm })
}

/// byte positions of interesting fields, by class
fn field_map(bytes: &[u8]) -> Vec<Vec<usize>> {
    // classes: 0 descriptor, 1 window/fcs/dict bytes, 2 block header, 3 literals header, 4 tree description,
    // 5 jump table, 6 sequence count, 7 modes byte, 8 table description bytes, 9 last byte of a bit stream,
    // 10 checksum, 11 first byte of block content
    let mut m: Vec<Vec<usize>> = vec![vec![]; 12];
    let Ok(info) = frame::walk(bytes, &WalkOpts { strict_reserved: false, max_content: 8 << 20, ..Default::default() }) else {
        return m;
    };
    m[0].push(4);
    for p in 5..info.header.header_len {
        m[1].push(p);
    }
    let mut p = info.header.header_len;
    for b in &info.blocks {
        m[2].extend([p, p + 1, p + 2]);
        let c = p + 3;
        if b.stored > 0 {
            m[11].push(c);
        }
        if let (2, Some(l)) = (b.btype, &b.lit) {
            for k in 0..l.header_len {
                m[3].push(c + k);
            }
            let body = c + l.header_len;
            for k in 0..l.tree_desc_len.min(6) {
                m[4].push(body + k);
            }
            if l.streams == 4 {
                for k in 0..6 {
                    m[5].push(body + l.tree_desc_len + k);
                }
            }
            if l.ltype >= 2 && l.comp > 0 {
                m[9].push(body + l.comp - 1);
            }
            let sq = body + l.comp;
            if let Some(s) = &b.seq {
                for k in 0..s.count_bytes as usize {
                    m[6].push(sq + k);
                }
                if s.nseq > 0 {
                    m[7].push(sq + s.count_bytes as usize);
                    for k in 1..=4 {
                        m[8].push(sq + s.count_bytes as usize + k);
                    }
                    m[9].push(p + 3 + b.stored - 1);
                }
            }
        }
        p += 3 + b.stored;
    }
    if info.header.checksum_flag {
        for k in 0..4 {
            m[10].push(p + k);
        }
    }
    for v in m.iter_mut() {
        v.retain(|&x| x < bytes.len());
    }
    m
}

fn apply(bytes: &mut Vec<u8>, muts: &[Mutation], other: &[u8]) {
    for mu in muts {
        if bytes.is_empty() {
            break;
        }
        let pos = |f: u16, n: usize| ((f as usize * n) >> 16).min(n.saturating_sub(1));
        match mu {
            Mutation::FlipBit { at, bit } => {
                let i = pos(*at, bytes.len());
                bytes[i] ^= 1 << bit;
            }
            Mutation::SetByte { at, val } => {
                let i = pos(*at, bytes.len());
                bytes[i] = *val;
            }
            Mutation::Truncate { at } => {
                let i = pos(*at, bytes.len());
                bytes.truncate(i);
            }
            Mutation::Extend { n, seed } => {
                let mut r = Rng(*seed as u64);
                for _ in 0..*n {
                    bytes.push(r.next() as u8);
                }
            }
            Mutation::Field { class, k, how, val } => {
                let map = field_map(bytes);
                let c = &map[*class as usize % 12];
                if c.is_empty() {
                    continue;
                }
                let i = c[*k as usize % c.len()];
                bytes[i] = match how % 6 {
                    0 => bytes[i].wrapping_add(1),
                    1 => bytes[i].wrapping_sub(1),
                    2 => 0xFF,
                    3 => 0,
                    4 => bytes[i] ^ (1 << (val % 8)),
                    _ => *val,
                };
            }
            Mutation::Splice { from, to, len } => {
                let a = pos(*from, bytes.len());
                let b = pos(*to, bytes.len());
                let l = (*len as usize).min(bytes.len() - a).min(bytes.len() - b);
                let piece = bytes[a..a + l].to_vec();
                bytes[b..b + l].copy_from_slice(&piece);
            }
            Mutation::Cross { at, from, len } => {
                if other.is_empty() {
                    continue;
                }
                let a = pos(*at, bytes.len());
                let f = pos(*from, other.len());
                let l = (*len as usize).min(bytes.len() - a).min(other.len() - f);
                bytes[a..a + l].copy_from_slice(&other[f..f + l]);
            }
        }
    }
}

pub fn check(case: &Case, ctx: &mut CaseCtx) -> CaseResult {
    // input
    let mut bytes: Vec<u8> = match &case.base {
        Base::Frame(fc) => match fc.build() {
            Ok(b) => b.frame,
            Err(_) => return Ok(()),
        },
        Base::Blind { desc, wd, len, seed } => {
            let mut r = Rng(*seed as u64);
            let mut f = frame::MAGIC.to_le_bytes().to_vec();
            f.push(*desc);
            f.push(*wd);
            f.extend((0..*len).map(|_| r.next() as u8));
            f
        }
        Base::Multi(a, b) => {
            let mut f = match a.build() {
                Ok(x) => x.frame,
                Err(_) => vec![],
            };
            f.extend_from_slice(&[0x50, 0x2A, 0x4D, 0x18, 3, 0, 0, 0, 1, 2, 3]);
            if let Ok(x) = b.build() {
                f.extend_from_slice(&x.frame);
            }
            f
        }
    };
    let other: Vec<u8> = case.other.as_ref().and_then(|o| o.build().ok()).map(|b| b.frame).unwrap_or_default();
    apply(&mut bytes, &case.muts, &other);
    let mut dec = FrameDecoder::new();
    if let Some(l) = case.limit {
        dec.set_max_window_size(l as u64);
    } else if case.warm {
        ringops::decode_drive::warm_up(&mut dec).map_err(|e| Failure::new("valid_frame_rejected", e))?;
        ctx.feat("decoder:warm_(a_valid_frame_decoded_before)");
    }
    // hostile dictionary: arbitrary bytes through the parser; if it still parses it is registered
    if let Some((ds, dm)) = &case.dict {
        if let Ok(b) = ds.build() {
            let mut d = b.bytes;
            apply(&mut d, dm, &bytes);
            ctx.feat("dict:parser_exercised");
            if let Ok(parsed) = Dictionary::decode_dict(&d) {
                let id = parsed.id;
                let _ = dec.add_dict(parsed);
                ctx.feat("dict:mutated_dictionary_registered");
                // make the frame name it where the header has room (dictionary id flag set)
                if bytes.len() > 10 && bytes[4] & 3 == 3 && bytes[4] & 0x20 == 0 {
                    bytes[6..10].copy_from_slice(&id.to_le_bytes());
                }
            }
        }
    }
    let bound = output_bound(&bytes);
    let (reached, errored) = drive(&mut dec, &bytes, &case.entry, bound);
    // "after an error the same decoder can be reset and used again"
    let good = good_frame();
    let mut src = &good[..];
    match dec.reset(&mut src) {
        Ok(()) => {}
        Err(e) => {
            // the only legitimate refusal: the caller's own window limit is below the good frame's window (5)
            ensure!(case.limit.map(|l| l < 5).unwrap_or(false), "reuse_after_error_failed", "reset with a known-good frame fails after the hostile input: {e}");
            ctx.feat("reuse:limit_below_good_frame");
            return finish(ctx, &bytes, reached, errored, &case.entry);
        }
    }
    if let Err(e) = dec.decode_blocks(&mut src, BlockDecodingStrategy::All) {
        fail!("reuse_after_error_failed", "decoding a known-good frame after the hostile input fails: {e}");
    }
    let out = dec.collect().unwrap_or_default();
    ensure!(out == b"hello" && dec.is_finished() && dec.get_calculated_checksum() == dec.get_checksum_from_data(), "reuse_after_error_wrong", "known-good frame decodes to {:?} after the hostile input", out);
    finish(ctx, &bytes, reached, errored, &case.entry)
}

fn finish(ctx: &mut CaseCtx, bytes: &[u8], reached: bool, errored: bool, entry: &Entry) -> CaseResult {
    ctx.feat(match entry {
        Entry::Streaming { .. } => "entry:streaming",
        Entry::Blocks { strat, .. } => ["entry:blocks_all", "entry:upto_blocks", "entry:upto_bytes"][(*strat % 3) as usize],
        Entry::FromTo { .. } => "entry:decode_from_to",
        Entry::DecodeAll { .. } => "entry:decode_all",
        Entry::DecodeAllToVec { .. } => "entry:decode_all_to_vec",
    });
    ctx.feat(if errored { "outcome:error" } else { "outcome:ok" });
    ctx.nontrivial = reached;
    ctx.set_hash_bytes(&[bytes, format!("{entry:?}").as_bytes()]);
    if reached && errored && bytes.len() < 60 {
        ctx.sample = Some(json!({"input_hex": crate::props::c01::hexhead(bytes), "entry": format!("{entry:?}")}));
    }
    Ok(())
}

// ------------------------------------------------------------------------------------------------
// hostile dictionaries: a dictionary that still parses but lies (repeat offsets of 0 / beyond its
// content / huge, damaged entropy tables, content cut to a few bytes), used by a frame that was
// built against the honest dictionary and leans on exactly those parts (first sequences use the
// repeat offsets with and without literals, Repeat-mode tables, treeless literals)

#[derive(Clone, Copy, Debug, Serialize, Deserialize)]
pub enum OffPick {
    Keep,
    Zero,
    Small(u8),
    /// content length + d
    Content(i8),
    /// 2^(24 + k%8) - 1
    Huge(u8),
    Raw(u32),
}

#[derive(Clone, Debug, Serialize, Deserialize)]
pub struct HostileDictCase {
    pub dict: DictSpec,
    pub offsets: [OffPick; 3],
    /// applied to the entropy-table bytes only
    pub entropy_muts: Vec<Mutation>,
    /// keep only this many content bytes
    pub content_keep: Option<u16>,
    pub first: CompSpec,
    pub rest: FrameSpec,
    pub entry: Entry,
    pub force: bool,
    #[serde(default)]
    pub warm: bool,
}

fn rep_first() -> impl Strategy<Value = CompSpec> {
    (
        comp_strategy(12, false),
        prop::collection::vec((prop_oneof![Just(0u32), 1u32..=12], 3u32..=40, 1u8..=3), 1..=5),
        prop_oneof![Just([0u8, 0, 0]), Just([3u8, 3, 3]), [0u8..=3, 0u8..=3, 0u8..=3]],
        prop_oneof![Just(0u8), Just(2u8), Just(3u8)],
        30u32..=400,
        any::<u32>(),
    )
        .prop_map(|(mut c, seqs, modes, lit_mode, len, seed)| {
            c.seqs = seqs.into_iter().map(|(ll, ml, r)| SeqSpec { ll, ml, off: OffSpec::Rep(r) }).collect();
            c.modes = modes;
            c.lit_mode = lit_mode;
            c.literals = crate::gen::data::DataSpec { kind: 2, len, seed, a: 3, b: 9 }.render();
            c
        })
}

fn hostile_dict_strategy() -> impl Strategy<Value = HostileDictCase> {
    let pick = || {
        prop_oneof![
            3 => Just(OffPick::Keep),
            4 => Just(OffPick::Zero),
            2 => (1u8..=9).prop_map(OffPick::Small),
            3 => (-2i8..=9).prop_map(OffPick::Content),
            2 => any::<u8>().prop_map(OffPick::Huge),
            1 => any::<u32>().prop_map(OffPick::Raw),
        ]
    };
    (
        dict_strategy(),
        [pick(), pick(), pick()],
        prop::collection::vec(mutation_strategy(), 0..=2),
        prop::option::weighted(0.3, prop_oneof![0u16..=9, 0u16..=300]),
        rep_first(),
        framespec_strategy(4, 40, false),
        entry_strategy(),
        prop::bool::weighted(0.2),
        prop::bool::weighted(0.3),
    )
        .prop_map(|(mut dict, offsets, entropy_muts, content_keep, first, rest, entry, force, warm)| {
            // a few hundred distinct honest dictionaries (memoised by the builder): the variety that
            // matters here is in the lies told about them
            dict.seed %= 16;
            dict.size = [64, 300, 1500, 6000][(dict.size % 4) as usize];
            dict.id = 1 + dict.id % 3;
            dict.level = 3;
            dict.vocab %= 2;
            dict.rep_patch = None;
            HostileDictCase { dict, offsets, entropy_muts, content_keep, first, rest, entry, force, warm }
        })
}

/// (hostile dictionary bytes, frame built against the honest dictionary, dictionary id)
pub fn build_hostile(case: &HostileDictCase) -> Option<(Vec<u8>, Vec<u8>, u32)> {
    let b = case.dict.build().ok()?;
    let m = frame::parse_dict(&b.bytes).ok()?;
    if m.entropy_len < 8 + 12 || m.entropy_len > b.bytes.len() {
        return None;
    }
    let mut spec = case.rest.clone();
    spec.blocks.insert(0, BlockSpec::Comp(case.first.clone()));
    spec.dict_id_bytes = 4;
    spec.single_segment = false;
    let frame_bytes = synth(&spec, Some(&m), false).bytes;
    // hostile copy
    let head = b.bytes[..8].to_vec();
    let mut tables = b.bytes[8..m.entropy_len - 12].to_vec();
    let mut offs = b.bytes[m.entropy_len - 12..m.entropy_len].to_vec();
    let mut content = b.bytes[m.entropy_len..].to_vec();
    apply(&mut tables, &case.entropy_muts, &frame_bytes);
    if let Some(k) = case.content_keep {
        content.truncate(k as usize);
    }
    for (i, pck) in case.offsets.iter().enumerate() {
        let v: Option<u32> = match pck {
            OffPick::Keep => None,
            OffPick::Zero => Some(0),
            OffPick::Small(x) => Some(*x as u32),
            OffPick::Content(d) => Some((content.len() as i64 + *d as i64).max(0) as u32),
            OffPick::Huge(k) => Some((1u32 << (24 + k % 8)).wrapping_sub(1)),
            OffPick::Raw(x) => Some(*x),
        };
        if let Some(v) = v {
            offs[i * 4..i * 4 + 4].copy_from_slice(&v.to_le_bytes());
        }
    }
    let mut hostile = head;
    hostile.extend_from_slice(&tables);
    hostile.extend_from_slice(&offs);
    hostile.extend_from_slice(&content);
    Some((hostile, frame_bytes, m.id))
}

fn check_hostile_dict(case: &HostileDictCase, ctx: &mut CaseCtx) -> CaseResult {
    let Some((hostile, bytes, id)) = build_hostile(case) else {
        ctx.feat("skipped:dictionary_not_built");
        return Ok(());
    };
    let mut dec = FrameDecoder::new();
    let parsed = match Dictionary::decode_dict(&hostile) {
        Ok(d) => d,
        Err(_) => {
            ctx.feat("hostile_dict:rejected_by_parser");
            ctx.set_hash_bytes(&[&hostile]);
            return Ok(());
        }
    };
    ctx.feat("hostile_dict:parsed_and_registered");
    ctx.feat_if(case.offsets.iter().any(|o| matches!(o, OffPick::Zero)), "hostile_dict:zero_repeat_offset");
    ctx.feat_if(case.offsets.iter().any(|o| matches!(o, OffPick::Content(d) if *d > 0) || matches!(o, OffPick::Huge(_))), "hostile_dict:repeat_offset_beyond_content");
    ctx.feat_if(!case.entropy_muts.is_empty(), "hostile_dict:entropy_tables_damaged");
    ctx.feat_if(case.content_keep.is_some(), "hostile_dict:content_cut_short");
    ctx.feat_if(case.first.seqs.first().map(|q| q.ll > 0).unwrap_or(false), "hostile_dict:first_sequence_has_literals");
    let _ = dec.add_dict(parsed);
    if case.warm {
        ringops::decode_drive::warm_up(&mut dec).map_err(|e| Failure::new("valid_frame_rejected", e))?;
        ctx.feat("decoder:warm_(a_valid_frame_decoded_before)");
    }
    let bound = output_bound(&bytes);
    let (reached, errored) = if case.force {
        // the caller names the dictionary instead of the frame header
        let mut src = &bytes[..];
        match dec.reset(&mut src) {
            Ok(()) => {
                let _ = dec.force_dict(id);
                let r = dec.decode_blocks(&mut src, BlockDecodingStrategy::UptoBytes(1 << 20));
                let _ = dec.collect();
                (true, r.is_err())
            }
            Err(_) => (false, true),
        }
    } else {
        drive(&mut dec, &bytes, &case.entry, bound)
    };
    let good = good_frame();
    let mut src = &good[..];
    if let Err(e) = dec.reset(&mut src) {
        fail!("reuse_after_error_failed", "reset with a known-good frame fails after a hostile dictionary frame: {e}");
    }
    if let Err(e) = dec.decode_blocks(&mut src, BlockDecodingStrategy::All) {
        fail!("reuse_after_error_failed", "decoding a known-good frame after a hostile dictionary frame fails: {e}");
    }
    let out = dec.collect().unwrap_or_default();
    ensure!(out == b"hello" && dec.is_finished(), "reuse_after_error_wrong", "known-good frame decodes to {:?} after a hostile dictionary frame", out);
    ctx.feat(if errored { "outcome:error" } else { "outcome:ok" });
    ctx.nontrivial = reached;
    ctx.set_hash_bytes(&[&hostile, &bytes, format!("{:?}{}", case.entry, case.force).as_bytes()]);
    Ok(())
}

// ------------------------------------------------------------------------------------------------
// format extremes: one compressed block whose three sequence tables are in RLE mode, so that a
// sequence costs only its extra bits and the block can carry the most sequences / the largest
// lengths the format can express (up to 98 047 sequences, match lengths up to 131 074, literal
// lengths up to 131 071, offsets up to 2^32): sums that leave 32 bits, counts at the 1/2/3-byte
// boundaries, bit streams of exactly the needed length. No mutation of a real frame and no byte
// level fuzzer gets there (65 KiB of 0xFF behind a 4-byte header).

#[derive(Clone, Debug, Serialize, Deserialize)]
pub struct ExtremeCase {
    pub n_seq: u32,
    /// RLE symbols: literal-length code, offset code, match-length code
    pub codes: [u8; 3],
    /// extra bits: 0 all zero, 1 all one, 2 random
    pub fill: u8,
    pub seed: u32,
    pub lits: u32,
    pub lit_rle: bool,
    /// history in front of the block: 0 none, 1 raw block of 16 bytes, 2 RLE block of 100 000 bytes
    pub prefix: u8,
    pub window_desc: u8,
    /// cut the sequence count so that the block content stays within 128 KiB
    pub fit: bool,
    pub entry: Entry,
    pub warm: bool,
}

const LL_BITS: [u8; 36] = [0, 0, 0, 0, 0, 0, 0, 0, 0, 0, 0, 0, 0, 0, 0, 0, 1, 1, 1, 1, 2, 2, 3, 3, 4, 6, 7, 8, 9, 10, 11, 12, 13, 14, 15, 16];
const ML_BITS: [u8; 53] = [
    0, 0, 0, 0, 0, 0, 0, 0, 0, 0, 0, 0, 0, 0, 0, 0, 0, 0, 0, 0, 0, 0, 0, 0, 0, 0, 0, 0, 0, 0, 0, 0, 1, 1, 1, 1, 2, 2, 3, 3, 4, 4, 5, 7, 8, 9, 10, 11, 12, 13, 14, 15, 16,
];

pub fn build_extreme(c: &ExtremeCase) -> Vec<u8> {
    let mut f = frame::MAGIC.to_le_bytes().to_vec();
    f.push(0x00);
    f.push(c.window_desc);
    match c.prefix % 3 {
        1 => {
            f.extend_from_slice(&[(16 << 3) as u8, 0, 0]);
            f.extend((0..16u8).map(|i| i.wrapping_mul(37)));
        }
        2 => {
            let h = (100_000u32 << 3) | (1 << 1);
            f.extend_from_slice(&h.to_le_bytes()[..3]);
            f.push(0x5A);
        }
        _ => {}
    }
    // literals section
    let mut body = vec![];
    let ty = c.lit_rle as u32;
    let lits = c.lits.min((1 << 20) - 1);
    if lits < 32 {
        body.push(((lits << 3) | ty) as u8);
    } else if lits < 4096 {
        body.extend_from_slice(&(((lits << 4) | (1 << 2) | ty) as u16).to_le_bytes());
    } else {
        body.extend_from_slice(&((lits << 4) | (3 << 2) | ty).to_le_bytes()[..3]);
    }
    if c.lit_rle {
        body.push(0x61);
    } else {
        body.extend((0..lits.min(100_000)).map(|i| (i * 13) as u8));
    }
    let (llc, ofc, mlc) = (c.codes[0].min(35), c.codes[1].min(31), c.codes[2].min(52));
    let bps = LL_BITS[llc as usize] as usize + ML_BITS[mlc as usize] as usize + ofc as usize;
    let mut n = c.n_seq.min(0x7F00 + 0xFFFF) as usize;
    if c.fit && bps > 0 {
        let avail = (128 * 1024usize).saturating_sub(body.len() + 3 + 1 + 3 + 1);
        n = n.min(avail * 8 / bps);
    }
    if n < 128 {
        body.push(n as u8);
    } else if n < 0x7F00 {
        body.push(((n >> 8) + 128) as u8);
        body.push(n as u8);
    } else {
        body.push(0xFF);
        body.extend_from_slice(&((n - 0x7F00) as u16).to_le_bytes());
    }
    if n > 0 {
        body.push(0x54);
        body.extend_from_slice(&[llc, ofc, mlc]);
        let total_bits = n * bps;
        let nbytes = (total_bits + 1 + 7) / 8;
        let mut r = Rng(c.seed as u64 | 1);
        let mut stream: Vec<u8> = match c.fill % 3 {
            0 => vec![0; nbytes],
            1 => vec![0xFF; nbytes],
            _ => (0..nbytes).map(|_| r.next() as u8).collect(),
        };
        // bits above the data are zero except the end mark
        let last = nbytes - 1;
        let used = total_bits - last * 8; // data bits in the last byte (0..=7)
        stream[last] &= ((1u16 << used) - 1) as u8;
        stream[last] |= 1 << used;
        body.extend_from_slice(&stream);
    }
    let h = ((body.len().min((1 << 21) - 1) as u32) << 3) | (2 << 1) | 1;
    f.extend_from_slice(&h.to_le_bytes()[..3]);
    f.extend_from_slice(&body);
    f
}

pub fn extreme_strategy() -> impl Strategy<Value = ExtremeCase> {
    let n_seq = prop_oneof![
        3 => prop::sample::select(vec![127u32, 128, 129, 0x7EFF, 0x7F00, 0x7F01, 32_767, 32_768, 32_769, 65_535, 65_536, 65_537, 98_046, 98_047]),
        2 => 1u32..=98_047,
        1 => 30_000u32..=70_000,
    ];
    let ll = prop_oneof![3 => Just(0u8).boxed(), 1 => (0u8..=35).boxed(), 1 => Just(35u8).boxed(), 1 => (16u8..=24).boxed()];
    let of = prop_oneof![3 => 0u8..=2, 1 => 0u8..=31, 1 => 20u8..=31];
    let ml = prop_oneof![3 => Just(52u8).boxed(), 2 => (48u8..=52).boxed(), 1 => (0u8..=52).boxed(), 1 => Just(0u8).boxed()];
    (
        (n_seq, (ll, of, ml).prop_map(|(a, b, c)| [a, b, c]), prop_oneof![3 => Just(1u8), 1 => Just(0u8), 2 => Just(2u8)], any::<u32>()),
        (prop_oneof![3 => 0u32..=40, 1 => 0u32..=5000, 1 => 60_000u32..=140_000, 1 => Just((1u32 << 20) - 1)], prop::bool::weighted(0.3), 0u8..=2, (0u8..=14, 0u8..=7), prop::bool::weighted(0.85)),
        entry_strategy(),
        prop::bool::weighted(0.25),
    )
        .prop_map(|((n_seq, codes, fill, seed), (lits, lit_rle, prefix, (e, m), fit), entry, warm)| ExtremeCase {
            n_seq,
            codes,
            fill,
            seed,
            lits,
            lit_rle,
            prefix,
            window_desc: (e << 3) | m,
            fit,
            entry,
            warm,
        })
}

fn check_extreme(case: &ExtremeCase, ctx: &mut CaseCtx) -> CaseResult {
    let bytes = build_extreme(case);
    // what the block would regenerate if it were expanded: decides nothing here, but says which
    // cases sit beyond the limits the decoder has to enforce
    let (llc, ofc, mlc) = (case.codes[0].min(35) as usize, case.codes[1].min(31), case.codes[2].min(52) as usize);
    let bps = LL_BITS[llc] as u64 + ML_BITS[mlc] as u64 + ofc as u64;
    ctx.feat(match case.n_seq {
        0..=127 => "count:1_byte",
        128..=0x7EFF => "count:2_bytes",
        _ => "count:3_bytes",
    });
    ctx.feat_if(case.n_seq >= 32_768 && mlc >= 51 && case.fill % 3 == 1, "sum_of_match_lengths:at_or_above_2^32");
    ctx.feat_if(case.n_seq as u64 * 65_536 >= 1 << 32 && llc == 35, "sum_of_literal_lengths:at_or_above_2^32");
    ctx.feat_if(ofc >= 30, "offset:code_30_31");
    ctx.feat_if(bps == 0, "sequences:no_extra_bits_at_all");
    ctx.feat_if(!case.fit, "block_content:may_exceed_128KiB");
    ctx.feat(["history:none", "history:raw_16", "history:rle_100000"][(case.prefix % 3) as usize]);
    // every block here either fits into 128 KiB of output or has to be refused: 2 GiB of heap is far
    // more than any of these inputs may legitimately need (window limit 100 MiB), and a decoder that
    // starts expanding gigabytes runs out of memory here the way it would on a small machine
    let (r, refused) = crate::alloc::ceiling_scope(2 << 30, || std::panic::catch_unwind(std::panic::AssertUnwindSafe(|| ringops::decode_drive::drive_and_reuse(&bytes, &case.entry, None, None, case.warm))));
    match r {
        Err(p) => {
            let msg = p.downcast_ref::<String>().cloned().or_else(|| p.downcast_ref::<&str>().map(|s| s.to_string())).unwrap_or_default();
            fail!("panic", "decoding panicked: {msg} ({refused} allocation requests refused above 2 GiB of live heap); extreme block {:?}", case);
        }
        Ok(Err(e)) => fail!("reuse_after_error_failed", "{e}; extreme block {:?}", case),
        Ok(Ok(())) => {}
    }
    ctx.feat_if(refused > 0, "heap:request_above_2GiB_refused_and_handled");
    ctx.feat_if(case.warm, "decoder:warm_(a_valid_frame_decoded_before)");
    ctx.nontrivial = case.n_seq > 0;
    ctx.set_hash_bytes(&[&bytes, format!("{:?}", case.entry).as_bytes()]);
    Ok(())
}

/// Dictionary parser on arbitrary / mutated bytes
fn check_dict(case: &(DictSpec, Vec<Mutation>, u16), ctx: &mut CaseCtx) -> CaseResult {
    let Ok(b) = case.0.build() else { return Ok(()) };
    let mut d = b.bytes;
    apply(&mut d, &case.1, &[]);
    d.truncate(d.len().saturating_sub(case.2 as usize % 64));
    let r = Dictionary::decode_dict(&d);
    ctx.feat(if r.is_ok() { "dict:parsed" } else { "dict:rejected" });
    ctx.nontrivial = true;
    ctx.set_hash_bytes(&[&d]);
    Ok(())
}

pub fn run(eng: &Engine) {
    eng.set_rule("deterministic layer: valid frames (three sources), blind frames with a valid magic and concatenations, mutated by a format-aware mutator that knows the walker's field map (descriptor, window/size/id bytes, block headers, literals headers, tree descriptions, jump tables, sequence counts, mode bytes, table descriptions, last byte of bit streams, checksum) plus bit flips, truncation, extension, splicing and crossing with another frame; decoded through StreamingDecoder, decode_blocks (All/UptoBlocks/UptoBytes with collect/read/collect_to_writer or no drain), decode_from_to, decode_all, decode_all_to_vec, optionally with a mutated dictionary that still parses, with a caller-set window limit, and on a decoder that has completely decoded a valid frame before (Huffman table, FSE-described sequence tables, moved repeat offsets); afterwards the SAME decoder is reset with a known-good frame and must decode it; plus a hostile-dictionary stage (a dictionary that still parses but carries repeat offsets of 0 / beyond its content / huge, damaged entropy tables or a content cut short, used - by id or forced - by a frame built against the honest dictionary whose first sequences use the repeat offsets with and without literals, Repeat-mode tables and treeless literals); oracle: no panic, no crash, per-case deadline (a reproducible overrun is a violation of kind hang), correct reuse; non-trivial = the input passes frame-header parsing and reaches block decoding; distinct by (input, entry) hash. The coverage-guided layer (libFuzzer + ASan + debug assertions over decode_any / decode_struct / dict_any) is run by the check script and reported in the evidence under coverage.fuzz.");
    eng.assume("output is drained with bounded budgets and capped at 64 MiB per case so that legitimate expansion (RLE blocks) cannot be mistaken for a hang; decode_blocks(All) is used only when the frame's block headers bound the output by 64 MiB");
    let tier = eng.tier;
    let n = eng.tier.pick(60_000, 2_000_000);
    eng.run_stage("mutated_frames", n, || case_strategy(tier), check);
    let nd = eng.tier.pick(10_000, 200_000);
    eng.run_stage("dictionary_parser", nd, || (dict_strategy(), prop::collection::vec(mutation_strategy(), 0..=4), any::<u16>()), check_dict);
    let nh = eng.tier.pick(30_000, 600_000);
    eng.run_stage("hostile_dictionaries", nh, hostile_dict_strategy, check_hostile_dict);
    let ne = eng.tier.pick(4_000, 60_000);
    eng.run_stage("format_extremes", ne, extreme_strategy, check_extreme);
    if !eng.has_violation() {
        export_seeds(eng);
    }
}

/// Seeds for the coverage-guided targets (valid inputs in each target's own input layout).
fn export_seeds(eng: &Engine) {
    use proptest::strategy::ValueTree;
    use proptest::test_runner::{Config, RngAlgorithm, RngSeed, TestRunner};
    let root = std::path::Path::new(crate::engine::VERIF_ROOT).join("target/c03_seeds");
    let _ = std::fs::remove_dir_all(&root);
    let _ = std::fs::create_dir_all(root.join("decode_any"));
    let _ = std::fs::create_dir_all(root.join("dict_any"));
    let mut runner = TestRunner::new(Config { rng_algorithm: RngAlgorithm::ChaCha, rng_seed: RngSeed::Fixed(eng.seed ^ 0xC03), failure_persistence: None, ..Config::default() });
    let fs = frame_case_custom(6000, 14, 6, 60, false);
    let mut n = 0;
    for i in 0..300u32 {
        let fc = fs.new_tree(&mut runner).unwrap().current();
        if let Ok(b) = fc.build() {
            if b.frame.len() <= 12_000 {
                let mut v = vec![(i % 5) as u8, (i * 7) as u8, (i >> 3) as u8, 0, (i % 3) as u8, (i % 4) as u8, 2 | if i % 2 == 1 { 0x80 } else { 0 }, 0];
                v.extend_from_slice(&b.frame);
                let _ = std::fs::write(root.join(format!("decode_any/s{i:03}")), v);
                n += 1;
            }
        }
    }
    // repository corpus files (small ones) in the target's layout
    for dir in ["/repo/ruzstd/decodecorpus_files", "/repo/ruzstd/fuzz/artifacts/decode"] {
        if let Ok(rd) = std::fs::read_dir(dir) {
            let mut paths: Vec<_> = rd.flatten().map(|e| e.path()).collect();
            paths.sort();
            for (k, p) in paths.iter().enumerate().take(250) {
                if let Ok(data) = std::fs::read(p) {
                    if data.len() <= 12_000 && !data.is_empty() {
                        let mut v = vec![(k % 5) as u8, 0, 4, 0, (k % 3) as u8, 0, 2, 0];
                        v.extend_from_slice(&data);
                        let _ = std::fs::write(root.join(format!("decode_any/r{}-{k:03}", dir.len())), v);
                        n += 1;
                    }
                }
            }
        }
    }
    let ds = dict_strategy();
    let rs = crate::gen::dicts::related_strategy(3000);
    let mut nd = 0;
    for i in 0..60u32 {
        let mut d = ds.new_tree(&mut runner).unwrap().current();
        d.size = 300 + (i * 53) % 3000;
        let rel = rs.new_tree(&mut runner).unwrap().current();
        if let Ok(b) = d.build() {
            if b.bytes.len() <= 6000 {
                let content = rel.render(&b, &d);
                if let Ok(f) = crate::refz::compress(&content, &crate::refz::RefCfg::default(), Some(&b.bytes)) {
                    let mut v = (b.bytes.len() as u16).to_le_bytes().to_vec();
                    v.push(i as u8);
                    v.extend_from_slice(&b.bytes);
                    v.extend_from_slice(&f);
                    if v.len() <= 15_000 {
                        let _ = std::fs::write(root.join(format!("dict_any/s{i:03}")), v);
                        nd += 1;
                    }
                }
                // hostile variant: repeat offsets of the dictionary zeroed / huge, frame whose first
                // sequences use the repeat offsets (incl. "offset 1 minus 1" with literal length 0)
                if let Ok(m) = frame::parse_dict(&b.bytes) {
                    use crate::model::synth::*;
                    let spec = FrameSpec {
                        single_segment: false,
                        window_desc: 0x20,
                        fcs_bytes: 0,
                        checksum: false,
                        dict_id_bytes: 4, zero_dict_id: false,
                        blocks: vec![BlockSpec::Comp(CompSpec {
                            literals: b"abcdefghij".to_vec(),
                            lit_mode: 0,
                            lit_fmt: 0,
                            huf_shape: 0,
                            huf_fse: false,
                            seqs: vec![
                                SeqSpec { ll: 0, ml: 4, off: OffSpec::Rep(3) },
                                SeqSpec { ll: 0, ml: 4, off: OffSpec::Rep(1) },
                                SeqSpec { ll: 2, ml: 5, off: OffSpec::Rep(2) },
                            ],
                            count_fmt: 0,
                            modes: [0, 0, 0],
                            tables: [(6, 1), (6, 2), (6, 3)],
                        })],
                    };
                    let f = synth(&spec, Some(&m), false).bytes;
                    let mut hostile = b.bytes.clone();
                    if m.entropy_len >= 12 {
                        let at = m.entropy_len - 12;
                        let fill = if i % 2 == 0 { 0u8 } else { 0xFF };
                        for x in hostile[at..at + 12].iter_mut() {
                            *x = fill;
                        }
                        let mut v = (hostile.len() as u16).to_le_bytes().to_vec();
                        v.push(i as u8 & 0xFE);
                        v.extend_from_slice(&hostile);
                        v.extend_from_slice(&f);
                        if v.len() <= 15_000 {
                            let _ = std::fs::write(root.join(format!("dict_any/h{i:03}")), v);
                            nd += 1;
                        }
                    }
                }
            }
        }
    }
    // hostile dictionaries from the stage above, in the dict_any layout
    let hs = hostile_dict_strategy();
    for i in 0..160u32 {
        let c = hs.new_tree(&mut runner).unwrap().current();
        if let Some((d, f, _)) = build_hostile(&c) {
            if d.len() <= 7000 && d.len() + f.len() <= 15_000 {
                let mut v = (d.len() as u16).to_le_bytes().to_vec();
                v.push(i as u8);
                v.extend_from_slice(&d);
                v.extend_from_slice(&f);
                let _ = std::fs::write(root.join(format!("dict_any/g{i:03}")), v);
                nd += 1;
            }
        }
    }
    // format extremes in the decode_any layout: executed once each by the instrumented binary
    // (overflow checks + debug assertions + ASan), see scripts/extra-C03.sh
    let _ = std::fs::create_dir_all(root.join("extremes"));
    let es = extreme_strategy();
    let mut ne = 0;
    for i in 0..300u32 {
        let mut c = es.new_tree(&mut runner).unwrap().current();
        c.fit = true;
        if i % 3 == 0 {
            // the corner every 32-bit sum has to survive: as many maximal match lengths as fit
            c.codes = [0, (i / 3 % 3) as u8, 52 - (i / 9 % 2) as u8];
            c.fill = 1;
            c.n_seq = [32_768, 65_536, 98_047, 40_000][(i / 18 % 4) as usize];
            c.prefix = 1 + (i / 3 % 2) as u8;
        }
        let f = build_extreme(&c);
        let mut v = vec![(i % 5) as u8, (i * 7) as u8, (i >> 3) as u8, 0, (i % 3) as u8, (i % 4) as u8, 2 | if i % 4 == 1 { 0x80 } else { 0 }, 0];
        v.extend_from_slice(&f);
        let _ = std::fs::write(root.join(format!("extremes/e{i:03}")), v);
        ne += 1;
    }
    eng.set_extra("fuzz_seeds_exported", json!({"decode_any": n, "dict_any": nd, "format_extremes": ne, "dir": root}));
}

pub fn replay(eng: &Engine, stage: &str, case: &Value) -> CaseResult {
    match stage {
        "mutated_frames" => eng.replay_value(stage, case, check),
        "dictionary_parser" => eng.replay_value(stage, case, check_dict),
        "hostile_dictionaries" => eng.replay_value(stage, case, check_hostile_dict),
        "format_extremes" => eng.replay_value(stage, case, check_extreme),
        _ => Err(Failure::new("machinery", format!("unknown stage {stage}"))),
    }
}
