//! Runner: seeds, workers, case accounting, shrinking, replay, evidence, known findings.

use proptest::strategy::{Strategy, ValueTree};
use proptest::test_runner::{Config, RngAlgorithm, RngSeed, TestCaseError, TestError, TestRunner};
use serde::{de::DeserializeOwned, Serialize};
use serde_json::{json, Value};
use std::collections::{BTreeMap, HashSet};
use std::panic::{catch_unwind, AssertUnwindSafe};
use std::path::{Path, PathBuf};
use std::sync::atomic::{AtomicBool, AtomicU64, Ordering};
use std::sync::{Arc, Mutex};
use std::time::{Duration, Instant};

pub const VERIF_ROOT: &str = "/verif";

#[derive(Clone, Copy, PartialEq, Eq, Debug)]
pub enum Tier {
    Quick,
    Thorough,
}

impl Tier {
    pub fn name(self) -> &'static str {
        match self {
            Tier::Quick => "quick",
            Tier::Thorough => "thorough",
        }
    }
    /// pick a count by tier
    pub fn pick(self, quick: u64, thorough: u64) -> u64 {
        let scale: f64 = std::env::var("VERIF_SCALE")
            .ok()
            .and_then(|s| s.parse().ok())
            .unwrap_or(1.0);
        let v = match self {
            Tier::Quick => quick,
            Tier::Thorough => thorough,
        };
        ((v as f64 * scale).ceil() as u64).max(1)
    }
}

/// A failed case. `kind` is the stable signature used for known-finding matching.
#[derive(Clone, Debug)]
pub struct Failure {
    pub kind: String,
    pub msg: String,
}

impl Failure {
    pub fn new(kind: &str, msg: impl Into<String>) -> Failure {
        Failure {
            kind: kind.to_string(),
            msg: msg.into(),
        }
    }
}

#[macro_export]
macro_rules! fail {
    ($kind:expr, $($arg:tt)*) => {
        return Err($crate::engine::Failure::new($kind, format!($($arg)*)))
    };
}

#[macro_export]
macro_rules! ensure {
    ($cond:expr, $kind:expr, $($arg:tt)*) => {
        if !($cond) {
            return Err($crate::engine::Failure::new($kind, format!($($arg)*)));
        }
    };
}

pub type CaseResult = Result<(), Failure>;

/// Per-case accounting handle given to the test closure.
#[derive(Default)]
pub struct CaseCtx {
    pub nontrivial: bool,
    pub hash: Option<u64>,
    pub features: Vec<&'static str>,
    pub sample: Option<Value>,
    /// number of sub-evaluations this case stands for (default 1)
    pub weight: u64,
    /// strict = replay mode: known findings are not tolerated inside the check
    pub strict: bool,
    /// the case is one item of an enumeration: distinct by construction (counted, not hashed)
    pub enumerated: bool,
    pub known_hits: Vec<String>,
}

impl CaseCtx {
    pub fn feat(&mut self, f: &'static str) {
        if !self.features.contains(&f) {
            self.features.push(f);
        }
    }
    pub fn feat_if(&mut self, c: bool, f: &'static str) {
        if c {
            self.feat(f)
        }
    }
    pub fn set_hash_bytes(&mut self, parts: &[&[u8]]) {
        let mut h = Fnv::new();
        for p in parts {
            h.write(&(p.len() as u64).to_le_bytes());
            h.write(p);
        }
        self.hash = Some(h.finish());
    }
    pub fn mix_hash(&mut self, v: u64) {
        let mut h = Fnv::new();
        h.write(&self.hash.unwrap_or(0).to_le_bytes());
        h.write(&v.to_le_bytes());
        self.hash = Some(h.finish());
    }
}

pub struct Fnv(u64);
impl Fnv {
    pub fn new() -> Fnv {
        Fnv(0xcbf29ce484222325)
    }
    pub fn write(&mut self, b: &[u8]) {
        // 8 bytes at a time for speed, FNV-style mixing
        let mut chunks = b.chunks_exact(8);
        for c in &mut chunks {
            let v = u64::from_le_bytes(c.try_into().unwrap());
            self.0 = (self.0 ^ v).wrapping_mul(0x100000001b3).rotate_left(29);
        }
        for &x in chunks.remainder() {
            self.0 = (self.0 ^ x as u64).wrapping_mul(0x100000001b3);
        }
    }
    pub fn finish(&self) -> u64 {
        let mut x = self.0;
        x ^= x >> 33;
        x = x.wrapping_mul(0xff51afd7ed558ccd);
        x ^= x >> 33;
        x
    }
}
pub fn hash_bytes(b: &[u8]) -> u64 {
    let mut h = Fnv::new();
    h.write(b);
    h.finish()
}

#[derive(Default)]
pub struct StageStats {
    pub name: String,
    pub evaluations: u64,
    pub nontrivial: u64,
    pub known_excluded: u64,
    pub exhaustive: bool,
    pub domain: Option<String>,
}

pub struct Violation {
    pub stage: String,
    pub kind: String,
    pub msg: String,
    pub replay: PathBuf,
}

#[derive(Clone)]
pub struct KnownFinding {
    pub sig: String,
    pub what: String,
}

pub struct Engine {
    pub id: String,
    pub tier: Tier,
    pub seed: u64,
    pub workers: usize,
    pub start: Instant,
    pub known: Vec<KnownFinding>,
    pub rule: Mutex<String>,
    pub assumptions: Mutex<Vec<String>>,
    pub stages: Mutex<Vec<StageStats>>,
    pub nontrivial_hashes: Mutex<HashSet<u64>>,
    pub features: Mutex<BTreeMap<String, u64>>,
    pub samples: Mutex<Vec<Value>>,
    pub known_hits: Mutex<BTreeMap<String, u64>>,
    pub violations: Mutex<Vec<Violation>>,
    pub selftest: Mutex<BTreeMap<String, u64>>,
    pub notes: Mutex<Vec<String>>,
    pub extra: Mutex<BTreeMap<String, Value>>,
    /// hang in a case = violation (C03, C20) instead of inconclusive
    pub hang_is_violation: bool,
    pub case_deadline: Duration,
    pub inconclusive: AtomicBool,
    pub enum_distinct: AtomicU64,
    pub trace_path: Option<PathBuf>,
}

struct WatchSlot {
    /// (wall-clock start, CPU time of the worker thread at the start, its CPU clock, stashed case)
    started: Mutex<Option<(Instant, Duration, i32, Option<String>)>>,
}

// The case deadline is measured in CPU time of the worker thread, so that a loaded machine (other
// checks, builds) cannot turn a slow case into a "hang"; a wall-clock limit of 20 deadlines backs it
// up for a thread that blocks without burning CPU.
#[repr(C)]
struct Timespec {
    tv_sec: i64,
    tv_nsec: i64,
}
extern "C" {
    fn pthread_self() -> usize;
    fn pthread_getcpuclockid(thread: usize, clock_id: *mut i32) -> i32;
    fn clock_gettime(clock_id: i32, tp: *mut Timespec) -> i32;
}

fn own_cpu_clock() -> i32 {
    let mut id = 0i32;
    unsafe {
        if pthread_getcpuclockid(pthread_self(), &mut id) != 0 {
            return -1;
        }
    }
    id
}

fn cpu_time(clock: i32) -> Option<Duration> {
    if clock == -1 {
        return None;
    }
    let mut ts = Timespec { tv_sec: 0, tv_nsec: 0 };
    if unsafe { clock_gettime(clock, &mut ts) } != 0 {
        return None;
    }
    Some(Duration::new(ts.tv_sec as u64, ts.tv_nsec as u32))
}

impl Engine {
    pub fn new(id: &str, tier: Tier, seed: u64) -> Engine {
        let known = load_known(id);
        Engine {
            id: id.to_string(),
            tier,
            seed,
            workers: std::env::var("VERIF_WORKERS")
                .ok()
                .and_then(|s| s.parse().ok())
                .unwrap_or(16),
            start: Instant::now(),
            known,
            rule: Mutex::new(String::new()),
            assumptions: Mutex::new(vec![]),
            stages: Mutex::new(vec![]),
            nontrivial_hashes: Mutex::new(HashSet::new()),
            features: Mutex::new(BTreeMap::new()),
            samples: Mutex::new(vec![]),
            known_hits: Mutex::new(BTreeMap::new()),
            violations: Mutex::new(vec![]),
            selftest: Mutex::new(BTreeMap::new()),
            notes: Mutex::new(vec![]),
            extra: Mutex::new(BTreeMap::new()),
            hang_is_violation: id == "C03" || id == "C20",
            case_deadline: Duration::from_secs(
                std::env::var("VERIF_CASE_DEADLINE")
                    .ok()
                    .and_then(|s| s.parse().ok())
                    .unwrap_or(if id == "C20" { 180 } else { 90 }),
            ),
            inconclusive: AtomicBool::new(false),
            enum_distinct: AtomicU64::new(0),
            trace_path: std::env::var("VERIF_TRACE").ok().map(PathBuf::from),
        }
    }

    pub fn set_rule(&self, r: &str) {
        *self.rule.lock().unwrap() = r.to_string();
    }
    pub fn assume(&self, a: &str) {
        self.assumptions.lock().unwrap().push(a.to_string());
    }
    pub fn note(&self, n: impl Into<String>) {
        self.notes.lock().unwrap().push(n.into());
    }
    pub fn selftest_count(&self, name: &str, n: u64) {
        *self
            .selftest
            .lock()
            .unwrap()
            .entry(name.to_string())
            .or_insert(0) += n;
    }
    pub fn set_extra(&self, k: &str, v: Value) {
        self.extra.lock().unwrap().insert(k.to_string(), v);
    }
    pub fn has_violation(&self) -> bool {
        !self.violations.lock().unwrap().is_empty()
    }

    /// Oracle self-test failure: machinery broken, exit 2, never a violation.
    pub fn machinery_broken(&self, what: &str) -> ! {
        println!("INCONCLUSIVE property={} machinery self-test failed: {}", self.id, what);
        std::process::exit(2);
    }

    fn is_known(&self, f: &Failure) -> Option<&KnownFinding> {
        self.known.iter().find(|k| k.sig == f.kind)
    }

    fn absorb(&self, stage: &mut StageStats, mut ctx: CaseCtx) {
        // samples are for a reader: anything beyond a few KB is dropped (evidence files stay small)
        if let Some(s) = &ctx.sample {
            if s.to_string().len() > 4096 {
                ctx.sample = None;
            }
        }
        let w = ctx.weight.max(1);
        stage.evaluations += w;
        for k in &ctx.known_hits {
            *self.known_hits.lock().unwrap().entry(k.clone()).or_insert(0) += 1;
            stage.known_excluded += 1;
        }
        {
            let mut f = self.features.lock().unwrap();
            for k in &ctx.features {
                *f.entry(k.to_string()).or_insert(0) += 1;
            }
        }
        if ctx.nontrivial && ctx.enumerated {
            stage.nontrivial += w;
            self.enum_distinct.fetch_add(w, Ordering::Relaxed);
            if let Some(s) = ctx.sample {
                let mut samples = self.samples.lock().unwrap();
                if samples.len() < 12 {
                    samples.push(s);
                }
            }
        } else if ctx.nontrivial {
            let h = ctx.hash.unwrap_or_else(|| {
                // no hash supplied: derive from sample if any, else count conservatively as duplicate
                ctx.sample
                    .as_ref()
                    .map(|s| hash_bytes(s.to_string().as_bytes()))
                    .unwrap_or(0)
            });
            let new = self.nontrivial_hashes.lock().unwrap().insert(h);
            if new {
                stage.nontrivial += 1;
                if let Some(s) = ctx.sample {
                    let mut samples = self.samples.lock().unwrap();
                    if samples.len() < 12 {
                        samples.push(s);
                    }
                }
            }
        }
    }

    fn write_replay(&self, stage: &str, value: &Value, fail: &Failure) -> PathBuf {
        let dir = Path::new(VERIF_ROOT).join("replays").join(&self.id);
        let _ = std::fs::create_dir_all(&dir);
        let doc = json!({
            "property": self.id,
            "stage": stage,
            "kind": fail.kind,
            "message": fail.msg,
            "seed": self.seed,
            "tier": self.tier.name(),
            "case": value,
        });
        let text = serde_json::to_string(&doc).unwrap();
        let path = dir.join(format!("{}-{:016x}.json", stage, hash_bytes(text.as_bytes())));
        let _ = std::fs::write(&path, text);
        path
    }

    pub fn report_violation(&self, stage: &str, value: &Value, fail: &Failure) {
        let path = self.write_replay(stage, value, fail);
        println!(
            "VIOLATION property={} replay={}",
            self.id,
            path.display()
        );
        println!("  stage={} kind={} :: {}", stage, fail.kind, truncate(&fail.msg, 600));
        self.violations.lock().unwrap().push(Violation {
            stage: stage.to_string(),
            kind: fail.kind.clone(),
            msg: fail.msg.clone(),
            replay: path,
        });
    }

    /// Run one case under catch_unwind, mapping panics to failures.
    pub fn guarded<V>(
        &self,
        v: &V,
        ctx: &mut CaseCtx,
        test: &(impl Fn(&V, &mut CaseCtx) -> CaseResult + ?Sized),
    ) -> CaseResult {
        match catch_unwind(AssertUnwindSafe(|| test(v, ctx))) {
            Ok(r) => r,
            Err(p) => {
                let msg = panic_message(&p);
                Err(Failure::new(&format!("panic:{}", panic_site(&msg)), msg))
            }
        }
    }

    /// Generated-input stage driven by proptest on `workers` threads.
    /// Returns true if the stage passed.
    pub fn run_stage<V, S>(
        &self,
        name: &str,
        cases: u64,
        strategy: impl Fn() -> S + Sync,
        test: impl Fn(&V, &mut CaseCtx) -> CaseResult + Sync,
    ) -> bool
    where
        S: Strategy<Value = V>,
        V: std::fmt::Debug + Serialize + DeserializeOwned,
    {
        if self.has_violation() {
            return false;
        }
        let t0 = Instant::now();
        // 16 logical workers (fixed: seeds do not depend on the thread count) on `workers` threads
        const LOGICAL: usize = 16;
        let workers = self.workers.clamp(1, LOGICAL);
        let per = cases / LOGICAL as u64;
        let extra = cases % LOGICAL as u64;
        let stop = AtomicBool::new(false);
        let slots: Vec<Arc<WatchSlot>> = (0..workers)
            .map(|_| {
                Arc::new(WatchSlot {
                    started: Mutex::new(None),
                })
            })
            .collect();
        let done = AtomicU64::new(0);
        let results: Vec<(StageStats, Option<(Value, Failure)>)> = std::thread::scope(|scope| {
            // watchdog
            let wd_slots = slots.clone();
            let stop_ref = &stop;
            let done_ref = &done;
            let this = &*self;
            let stage_name = name.to_string();
            scope.spawn(move || loop {
                std::thread::sleep(Duration::from_millis(500));
                if done_ref.load(Ordering::Relaxed) >= workers as u64 {
                    break;
                }
                for s in &wd_slots {
                    let g = s.started.lock().unwrap();
                    if let Some((t, cpu0, clock, stash)) = &*g {
                        let burnt = cpu_time(*clock).map(|c| c.saturating_sub(*cpu0));
                        let over = match burnt {
                            Some(b) => b > this.case_deadline || t.elapsed() > this.case_deadline * 20,
                            None => t.elapsed() > this.case_deadline,
                        };
                        if over {
                            if this.hang_is_violation {
                                let v: Value = stash
                                    .as_ref()
                                    .and_then(|s| serde_json::from_str(s).ok())
                                    .unwrap_or(Value::Null);
                                this.report_violation(
                                    &stage_name,
                                    &v,
                                    &Failure::new(
                                        "hang",
                                        format!(
                                            "case did not finish within {:?} of CPU time",
                                            this.case_deadline
                                        ),
                                    ),
                                );
                                this.write_evidence();
                                std::process::exit(1);
                            } else {
                                println!(
                                    "INCONCLUSIVE property={} stage={} a case exceeded the {:?} deadline (CPU time)",
                                    this.id, stage_name, this.case_deadline
                                );
                                if let Some(st) = stash {
                                    let _ = std::fs::write(Path::new(VERIF_ROOT).join("target").join(format!("slow-case-{}.json", this.id)), st);
                                }
                                std::process::exit(2);
                            }
                        }
                    }
                }
                let _ = stop_ref;
            });
            let handles: Vec<_> = (0..workers)
                .map(|t| {
                    let slot = slots[t].clone();
                    let strategy = &strategy;
                    let test = &test;
                    let stop = &stop;
                    let done = &done;
                    let this = &*self;
                    scope.spawn(move || {
                        let mut out = vec![];
                        for w in (t..LOGICAL).step_by(workers) {
                            let n = per + if (w as u64) < extra { 1 } else { 0 };
                            let (st, f) = this.worker(name, w, n, strategy, test, stop, &slot);
                            out.push((w, st, f));
                        }
                        done.fetch_add(1, Ordering::Relaxed);
                        out
                    })
                })
                .collect();
            let mut all: Vec<(usize, StageStats, Option<(Value, Failure)>)> =
                handles.into_iter().flat_map(|h| h.join().unwrap()).collect();
            all.sort_by_key(|x| x.0);
            all.into_iter().map(|(_, st, f)| (st, f)).collect()
        });
        let mut merged = StageStats {
            name: name.to_string(),
            ..Default::default()
        };
        let mut first_fail = None;
        for (st, f) in results {
            merged.evaluations += st.evaluations;
            merged.nontrivial += st.nontrivial;
            merged.known_excluded += st.known_excluded;
            if first_fail.is_none() {
                first_fail = f;
            }
        }
        eprintln!(
            "[{}] stage {:<28} cases={:<8} nontrivial={:<8} known_excluded={} {:.1}s",
            self.id,
            name,
            merged.evaluations,
            merged.nontrivial,
            merged.known_excluded,
            t0.elapsed().as_secs_f64()
        );
        self.stages.lock().unwrap().push(merged);
        if let Some((v, f)) = first_fail {
            self.report_violation(name, &v, &f);
            return false;
        }
        true
    }

    #[allow(clippy::too_many_arguments)]
    fn worker<V, S>(
        &self,
        stage: &str,
        w: usize,
        n: u64,
        strategy: &(impl Fn() -> S + Sync),
        test: &(impl Fn(&V, &mut CaseCtx) -> CaseResult + Sync),
        stop: &AtomicBool,
        slot: &WatchSlot,
    ) -> (StageStats, Option<(Value, Failure)>)
    where
        S: Strategy<Value = V>,
        V: std::fmt::Debug + Serialize + DeserializeOwned,
    {
        let mut stats = StageStats::default();
        if n == 0 {
            return (stats, None);
        }
        let mut seed_bytes = [0u8; 32];
        let mut h = Fnv::new();
        h.write(self.id.as_bytes());
        h.write(stage.as_bytes());
        h.write(&self.seed.to_le_bytes());
        h.write(&(w as u64).to_le_bytes());
        let mut x = h.finish();
        for c in seed_bytes.chunks_mut(8) {
            x = x.wrapping_mul(6364136223846793005).wrapping_add(1442695040888963407);
            c.copy_from_slice(&(x ^ (x >> 29)).to_le_bytes());
        }
        let cfg = Config {
            cases: n as u32,
            failure_persistence: None,
            rng_algorithm: RngAlgorithm::ChaCha,
            rng_seed: RngSeed::Fixed(x),
            max_shrink_iters: 1500,
            max_shrink_time: 60_000,
            max_global_rejects: 1_000_000,
            verbose: 0,
            ..Config::default()
        };
        let _ = seed_bytes;
        let mut runner = TestRunner::new(cfg);
        let strat = strategy();
        let failing: std::cell::Cell<bool> = std::cell::Cell::new(false);
        let last_fail: std::cell::RefCell<Option<Failure>> = std::cell::RefCell::new(None);
        let stats_cell = std::cell::RefCell::new(&mut stats);
        let result = runner.run(&strat, |v| {
            if stop.load(Ordering::Relaxed) && !failing.get() {
                // another worker failed: finish quickly
                return Ok(());
            }
            let stash = if self.hang_is_violation || std::env::var_os("VERIF_STASH").is_some() {
                serde_json::to_string(&v).ok()
            } else {
                None
            };
            let clock = own_cpu_clock();
            *slot.started.lock().unwrap() = Some((Instant::now(), cpu_time(clock).unwrap_or_default(), clock, stash));
            if let Some(tp) = &self.trace_path {
                // crash localisation mode (single thread): the case is on disk before it runs
                let doc = json!({"property": self.id, "stage": stage, "kind": "crash",
                    "message": "the harness process crashed while executing this case",
                    "seed": self.seed, "tier": self.tier.name(), "case": serde_json::to_value(&v).unwrap_or(Value::Null)});
                let _ = std::fs::write(tp, serde_json::to_string(&doc).unwrap());
            }
            let mut ctx = CaseCtx::default();
            let r = self.guarded(&v, &mut ctx, test);
            *slot.started.lock().unwrap() = None;
            match r {
                Ok(()) => {
                    if !failing.get() {
                        self.absorb(&mut stats_cell.borrow_mut(), ctx);
                    }
                    Ok(())
                }
                Err(f) => {
                    if let Some(k) = self.is_known(&f) {
                        if !failing.get() {
                            ctx.known_hits.push(k.sig.clone());
                            self.absorb(&mut stats_cell.borrow_mut(), ctx);
                        }
                        return Ok(());
                    }
                    failing.set(true);
                    stop.store(true, Ordering::Relaxed);
                    *last_fail.borrow_mut() = Some(f.clone());
                    Err(TestCaseError::fail(f.kind))
                }
            }
        });
        drop(stats_cell);
        match result {
            Ok(()) => (stats, None),
            Err(TestError::Fail(_, v)) => {
                // re-run the minimal value to get its exact failure text
                let mut ctx = CaseCtx::default();
                let f = match self.guarded(&v, &mut ctx, test) {
                    Err(f) => f,
                    Ok(()) => last_fail
                        .borrow()
                        .clone()
                        .unwrap_or_else(|| Failure::new("unknown", "failure vanished on re-run")),
                };
                let val = serde_json::to_value(&v).unwrap_or(Value::Null);
                (stats, Some((val, f)))
            }
            Err(TestError::Abort(r)) => {
                println!(
                    "INCONCLUSIVE property={} stage={} generator aborted: {}",
                    self.id, stage, r
                );
                self.inconclusive.store(true, Ordering::Relaxed);
                (stats, None)
            }
        }
    }

    /// Enumerated stage: `total` items split over workers by index; the item function receives
    /// the index. Used for exhaustive sub-domains. `describe` renders an index for the replay file.
    pub fn run_enumerated(
        &self,
        name: &str,
        domain: &str,
        total: u64,
        chunk: u64,
        test: impl Fn(u64, &mut CaseCtx) -> CaseResult + Sync,
    ) -> bool {
        if self.has_violation() {
            return false;
        }
        let t0 = Instant::now();
        let next = AtomicU64::new(0);
        let fail: Mutex<Option<(u64, Failure)>> = Mutex::new(None);
        let stop = AtomicBool::new(false);
        let stats: Vec<StageStats> = std::thread::scope(|scope| {
            let hs: Vec<_> = (0..self.workers)
                .map(|_| {
                    scope.spawn(|| {
                        let mut st = StageStats::default();
                        loop {
                            if stop.load(Ordering::Relaxed) {
                                break;
                            }
                            let lo = next.fetch_add(chunk, Ordering::Relaxed);
                            if lo >= total {
                                break;
                            }
                            let hi = (lo + chunk).min(total);
                            if let Some(tp) = &self.trace_path {
                                let doc = json!({"property": self.id, "stage": name, "kind": "crash",
                                    "message": format!("the harness process crashed in items {lo}..{hi}"),
                                    "seed": self.seed, "tier": self.tier.name(),
                                    "case": {"index": lo, "seed": self.seed, "tier": self.tier.name()}});
                                let _ = std::fs::write(tp, serde_json::to_string(&doc).unwrap());
                            }
                            // fast path: whole chunk under one catch_unwind, local accounting
                            let mut evals = 0u64;
                            let mut nontriv = 0u64;
                            let mut feats: Vec<(&'static str, u64)> = vec![];
                            let mut sample: Option<Value> = None;
                            let fast = catch_unwind(AssertUnwindSafe(|| -> Result<(), (u64, Failure)> {
                                let mut ctx = CaseCtx::default();
                                for i in lo..hi {
                                    ctx.features.clear();
                                    ctx.nontrivial = false;
                                    ctx.weight = 1;
                                    ctx.sample = None;
                                    test(i, &mut ctx).map_err(|f| (i, f))?;
                                    let w = ctx.weight.max(1);
                                    evals += w;
                                    if ctx.nontrivial {
                                        nontriv += w;
                                        if sample.is_none() {
                                            sample = ctx.sample.take();
                                        }
                                    }
                                    for f in &ctx.features {
                                        match feats.iter_mut().find(|x| x.0 == *f) {
                                            Some(x) => x.1 += 1,
                                            None => feats.push((f, 1)),
                                        }
                                    }
                                }
                                Ok(())
                            }));
                            let failed_at: Option<(u64, Failure)> = match fast {
                                Ok(Ok(())) => None,
                                Ok(Err((i, f))) => Some((i, f)),
                                Err(_) => {
                                    // a panic somewhere in the chunk: find the item
                                    let mut found = None;
                                    for i in lo..hi {
                                        let mut ctx = CaseCtx::default();
                                        if let Err(f) = self.guarded(&i, &mut ctx, &|i: &u64, c: &mut CaseCtx| test(*i, c)) {
                                            found = Some((i, f));
                                            break;
                                        }
                                    }
                                    found
                                }
                            };
                            if let Some((i, f)) = failed_at {
                                if self.is_known(&f).is_some() {
                                    // known finding inside an enumeration: fall back to item-wise
                                    // processing of this chunk so the rest is still checked
                                    for j in lo..hi {
                                        let mut ctx = CaseCtx::default();
                                        match self.guarded(&j, &mut ctx, &|i: &u64, c: &mut CaseCtx| test(*i, c)) {
                                            Ok(()) => {
                                                ctx.enumerated = true;
                                                self.absorb(&mut st, ctx)
                                            }
                                            Err(f2) => {
                                                if let Some(k) = self.is_known(&f2) {
                                                    ctx.known_hits.push(k.sig.clone());
                                                    ctx.nontrivial = false;
                                                    self.absorb(&mut st, ctx);
                                                } else {
                                                    let mut g = fail.lock().unwrap();
                                                    if g.as_ref().map(|(x, _)| j < *x).unwrap_or(true) {
                                                        *g = Some((j, f2));
                                                    }
                                                    stop.store(true, Ordering::Relaxed);
                                                    break;
                                                }
                                            }
                                        }
                                    }
                                    continue;
                                }
                                let mut g = fail.lock().unwrap();
                                if g.as_ref().map(|(j, _)| i < *j).unwrap_or(true) {
                                    *g = Some((i, f));
                                }
                                stop.store(true, Ordering::Relaxed);
                                break;
                            }
                            st.evaluations += evals;
                            st.nontrivial += nontriv;
                            self.enum_distinct.fetch_add(nontriv, Ordering::Relaxed);
                            if !feats.is_empty() {
                                let mut f = self.features.lock().unwrap();
                                for (k, n) in feats {
                                    *f.entry(k.to_string()).or_insert(0) += n;
                                }
                            }
                            if let Some(sv) = sample {
                                let mut samples = self.samples.lock().unwrap();
                                if samples.len() < 12 {
                                    samples.push(sv);
                                }
                            }
                        }
                        st
                    })
                })
                .collect();
            hs.into_iter().map(|h| h.join().unwrap()).collect()
        });
        let mut merged = StageStats {
            name: name.to_string(),
            exhaustive: true,
            domain: Some(format!("{} ({} items)", domain, total)),
            ..Default::default()
        };
        for st in stats {
            merged.evaluations += st.evaluations;
            merged.nontrivial += st.nontrivial;
            merged.known_excluded += st.known_excluded;
        }
        eprintln!(
            "[{}] enum  {:<28} items={:<10} evals={:<10} nontrivial={:<8} {:.1}s",
            self.id,
            name,
            total,
            merged.evaluations,
            merged.nontrivial,
            t0.elapsed().as_secs_f64()
        );
        let failed = fail.into_inner().unwrap();
        if failed.is_some() {
            merged.exhaustive = false;
        }
        self.stages.lock().unwrap().push(merged);
        if let Some((i, f)) = failed {
            self.report_violation(
                name,
                &json!({"index": i, "seed": self.seed, "tier": self.tier.name()}),
                &f,
            );
            return false;
        }
        true
    }

    /// Replay one stored case (regress file or replay file) through `test`.
    pub fn replay_value<V: DeserializeOwned>(
        &self,
        stage: &str,
        case: &Value,
        test: impl Fn(&V, &mut CaseCtx) -> CaseResult,
    ) -> CaseResult {
        let v: V = serde_json::from_value(case.clone())
            .map_err(|e| Failure::new("machinery", format!("cannot parse case for {stage}: {e}")))?;
        let mut ctx = CaseCtx {
            strict: true,
            ..Default::default()
        };
        self.guarded(&v, &mut ctx, &test)
    }

    pub fn write_evidence(&self) {
        let stages = self.stages.lock().unwrap();
        let evaluations: u64 = stages.iter().map(|s| s.evaluations).sum();
        let distinct = self.nontrivial_hashes.lock().unwrap().len() as u64
            + self.enum_distinct.load(Ordering::Relaxed);
        let exhaustive_domains: Vec<String> = stages
            .iter()
            .filter(|s| s.exhaustive)
            .filter_map(|s| s.domain.clone())
            .collect();
        let all_exhaustive = !stages.is_empty() && stages.iter().all(|s| s.exhaustive);
        let stage_list: Vec<Value> = stages
            .iter()
            .map(|s| {
                json!({"name": s.name, "evaluations": s.evaluations, "distinct_nontrivial": s.nontrivial,
                       "known_excluded": s.known_excluded, "exhaustive": s.exhaustive, "domain": s.domain})
            })
            .collect();
        let mut samples = self.samples.lock().unwrap().clone();
        if samples.is_empty() {
            samples.push(json!("(no non-trivial sample recorded)"));
        }
        let mut coverage = json!({
            "evaluations": evaluations,
            "distinct_nontrivial": distinct,
            "rule": *self.rule.lock().unwrap(),
            "samples": samples,
            "exhaustive": all_exhaustive,
            "exhaustive_subdomains": exhaustive_domains,
            "stages": stage_list,
            "features": *self.features.lock().unwrap(),
            "known_findings_excluded": *self.known_hits.lock().unwrap(),
            "oracle_selftest": *self.selftest.lock().unwrap(),
            "notes": *self.notes.lock().unwrap(),
        });
        for (k, v) in self.extra.lock().unwrap().iter() {
            coverage[k] = v.clone();
        }
        let viol = self.violations.lock().unwrap();
        let doc = json!({
            "property_id": self.id,
            "tier": self.tier.name(),
            "seed": self.seed,
            "level": "exploration",
            "coverage": coverage,
            "assumptions": *self.assumptions.lock().unwrap(),
            "wall_s": self.start.elapsed().as_secs_f64(),
            "violations": viol.len(),
            "violation_details": viol.iter().map(|v| json!({"stage": v.stage, "kind": v.kind,
                  "message": truncate(&v.msg, 400), "replay": v.replay})).collect::<Vec<_>>(),
        });
        let dir = Path::new(VERIF_ROOT).join("evidence");
        let _ = std::fs::create_dir_all(&dir);
        let path = dir.join(format!("{}.json", self.id));
        std::fs::write(&path, serde_json::to_string_pretty(&doc).unwrap()).unwrap();
    }

    /// Final verdict + exit code.
    pub fn finish(&self) -> i32 {
        for k in &self.known {
            println!("KNOWN-FINDING: property={} {}", self.id, k.what);
        }
        self.write_evidence();
        let stages = self.stages.lock().unwrap();
        let evaluations: u64 = stages.iter().map(|s| s.evaluations).sum();
        let distinct = self.nontrivial_hashes.lock().unwrap().len() as u64
            + self.enum_distinct.load(Ordering::Relaxed);
        let nviol = self.violations.lock().unwrap().len();
        println!(
            "property={} tier={} seed={} evaluations={} distinct_nontrivial={} violations={} wall={:.1}s",
            self.id,
            self.tier.name(),
            self.seed,
            evaluations,
            distinct,
            nviol,
            self.start.elapsed().as_secs_f64()
        );
        if nviol > 0 {
            1
        } else if self.inconclusive.load(Ordering::Relaxed) {
            2
        } else {
            0
        }
    }
}

pub fn truncate(s: &str, n: usize) -> String {
    if s.len() <= n {
        s.to_string()
    } else {
        let mut end = n;
        while !s.is_char_boundary(end) {
            end -= 1;
        }
        format!("{}…", &s[..end])
    }
}

thread_local! {
    static LAST_PANIC_LOC: std::cell::RefCell<String> = const { std::cell::RefCell::new(String::new()) };
}

pub fn install_panic_hook() {
    std::panic::set_hook(Box::new(|info| {
        let loc = info
            .location()
            .map(|l| format!("{}:{}", l.file(), l.line()))
            .unwrap_or_default();
        let _ = LAST_PANIC_LOC.try_with(|c| *c.borrow_mut() = loc);
    }));
}

fn panic_message(p: &Box<dyn std::any::Any + Send>) -> String {
    let m = if let Some(s) = p.downcast_ref::<&str>() {
        s.to_string()
    } else if let Some(s) = p.downcast_ref::<String>() {
        s.clone()
    } else {
        "non-string panic".to_string()
    };
    let loc = LAST_PANIC_LOC.with(|c| c.borrow().clone());
    format!("panic at {loc}: {m}")
}

/// stable signature of a panic: file name + first words of the message (no line numbers, no values)
fn panic_site(msg: &str) -> String {
    // "panic at /repo/ruzstd/src/fse/fse_encoder.rs:304: called `Option::unwrap()`..."
    let rest = msg.strip_prefix("panic at ").unwrap_or(msg);
    let (loc, text) = rest.split_once(": ").unwrap_or((rest, ""));
    let file = loc.rsplit('/').next().unwrap_or(loc);
    let file = file.split(':').next().unwrap_or(file);
    let words: String = text
        .chars()
        .map(|c| if c.is_ascii_alphabetic() { c } else { ' ' })
        .collect::<String>()
        .split_whitespace()
        .take(4)
        .collect::<Vec<_>>()
        .join("_");
    format!("{file}:{words}")
}

fn load_known(id: &str) -> Vec<KnownFinding> {
    let path = Path::new(VERIF_ROOT).join("KNOWN_FINDINGS.txt");
    let mut out = vec![];
    if let Ok(text) = std::fs::read_to_string(path) {
        for line in text.lines() {
            let line = line.trim();
            if let Some(rest) = line.strip_prefix("known:") {
                // known: property=C05 sig=<sig> :: <what>
                let rest = rest.trim();
                let (head, what) = rest.split_once("::").unwrap_or((rest, ""));
                let mut prop = "";
                let mut sig = "";
                for tok in head.split_whitespace() {
                    if let Some(p) = tok.strip_prefix("property=") {
                        prop = p;
                    }
                    if let Some(s) = tok.strip_prefix("sig=") {
                        sig = s;
                    }
                }
                if prop == id && !sig.is_empty() {
                    out.push(KnownFinding {
                        sig: sig.to_string(),
                        what: what.trim().to_string(),
                    });
                }
            }
        }
    }
    out
}

/// All committed regression cases for a property: (path, stage, case)
pub fn load_regress(id: &str) -> Vec<(PathBuf, String, Value)> {
    let dir = Path::new(VERIF_ROOT).join("regress").join(id);
    let mut out = vec![];
    if let Ok(rd) = std::fs::read_dir(dir) {
        let mut paths: Vec<_> = rd.filter_map(|e| e.ok()).map(|e| e.path()).collect();
        paths.sort();
        for p in paths {
            if p.extension().map(|e| e == "json").unwrap_or(false) {
                if let Ok(t) = std::fs::read_to_string(&p) {
                    if let Ok(v) = serde_json::from_str::<Value>(&t) {
                        let stage = v["stage"].as_str().unwrap_or("").to_string();
                        out.push((p, stage, v["case"].clone()));
                    }
                }
            }
        }
    }
    out
}

pub fn load_replay(path: &Path) -> Option<(String, String, Value)> {
    let t = std::fs::read_to_string(path).ok()?;
    let v: Value = serde_json::from_str(&t).ok()?;
    Some((
        v["property"].as_str()?.to_string(),
        v["stage"].as_str()?.to_string(),
        v["case"].clone(),
    ))
}

/// new_tree + current helper (used by a few generators that sample directly)
pub fn sample_one<S: Strategy>(s: &S, runner: &mut TestRunner) -> S::Value {
    s.new_tree(runner).unwrap().current()
}

/// hex helpers for replay files
pub use ringops::hexbytes;
