//! Oracle self-tests: the model is compared against libzstd (constants in its source, and its
//! behaviour) before it is used to judge the crate under test. A failure here is "machinery
//! broken" (exit 2), never a violation.

use crate::engine::Engine;
use crate::model::{codes, frame, fse, xxh64};
use crate::refz;

fn zstd_source(rel: &str) -> Option<String> {
    let home = std::env::var("CARGO_HOME")
        .ok()
        .or_else(|| std::env::var("HOME").ok().map(|h| format!("{h}/.cargo")))?;
    let reg = std::path::Path::new(&home).join("registry/src");
    for e in std::fs::read_dir(reg).ok()?.flatten() {
        let p = e.path().join("zstd-sys-2.1.0+zstd.1.5.7/zstd/lib").join(rel);
        if let Ok(t) = std::fs::read_to_string(&p) {
            return Some(t);
        }
    }
    None
}

/// integers of the C array initialiser `name[...] = { ... };` (comments stripped, macros substituted)
fn c_array(text: &str, name: &str) -> Option<Vec<i64>> {
    let mut at = 0;
    loop {
        let idx = text[at..].find(name)? + at;
        let rest = &text[idx + name.len()..];
        if rest.trim_start().starts_with('[') {
            let eq = rest.find('=')?;
            let open = rest[eq..].find('{')? + eq;
            let close = rest[open..].find("};")? + open;
            let mut body = rest[open + 1..close].to_string();
            // strip comments
            while let Some(a) = body.find("/*") {
                let b = body[a..].find("*/").map(|b| a + b + 2).unwrap_or(body.len());
                body.replace_range(a..b, " ");
            }
            let body = body
                .replace("LL_DEFAULTNORMLOG", "6")
                .replace("ML_DEFAULTNORMLOG", "6")
                .replace("OF_DEFAULTNORMLOG", "5");
            let mut out = vec![];
            for tok in body.split(|c: char| !(c.is_ascii_alphanumeric() || c == '-')) {
                if tok.is_empty() {
                    continue;
                }
                let v = if let Some(h) = tok.strip_prefix("0x") {
                    i64::from_str_radix(h, 16).ok()?
                } else {
                    tok.parse::<i64>().ok()?
                };
                out.push(v);
            }
            return Some(out);
        }
        at = idx + name.len();
    }
}

pub fn code_tables(eng: &Engine) {
    if let Err(e) = xxh64::selftest() {
        eng.machinery_broken(&e);
    }
    eng.selftest_count("xxh64_vectors", 4);
    let Some(internal) = zstd_source("common/zstd_internal.h") else {
        eng.note("libzstd source not found in the cargo registry: constant cross-check skipped");
        return;
    };
    let Some(dblock) = zstd_source("decompress/zstd_decompress_block.c") else {
        eng.note("libzstd decompress source not found: table cross-check skipped");
        return;
    };
    let check = |name: &str, got: Vec<i64>, want: Option<Vec<i64>>| {
        match want {
            Some(w) if w == got => eng.selftest_count("libzstd_constant_arrays_equal", 1),
            Some(w) => eng.machinery_broken(&format!("{name}: model {got:?} != libzstd {w:?}")),
            None => eng.machinery_broken(&format!("{name}: not found in libzstd source")),
        };
    };
    check("LL_bits", codes::LL_TABLE.iter().map(|x| x.1 as i64).collect(), c_array(&internal, "LL_bits"));
    check("ML_bits", codes::ML_TABLE.iter().map(|x| x.1 as i64).collect(), c_array(&internal, "ML_bits"));
    check("LL_defaultNorm", codes::LL_DEFAULT.iter().map(|&x| x as i64).collect(), c_array(&internal, "LL_defaultNorm"));
    check("ML_defaultNorm", codes::ML_DEFAULT.iter().map(|&x| x as i64).collect(), c_array(&internal, "ML_defaultNorm"));
    check("OF_defaultNorm", codes::OF_DEFAULT.iter().map(|&x| x as i64).collect(), c_array(&internal, "OF_defaultNorm"));
    let Some(dint) = zstd_source("decompress/zstd_decompress_internal.h") else {
        eng.note("libzstd decompress header not found: base-table cross-check skipped");
        return;
    };
    check("LL_base", codes::LL_TABLE.iter().map(|x| x.0 as i64).collect(), c_array(&dint, "LL_base"));
    check("ML_base", codes::ML_TABLE.iter().map(|x| x.0 as i64).collect(), c_array(&dint, "ML_base"));
    // predefined decoding tables: {nextState, nbAdditionalBits, nbBits, baseValue}, first entry is a header
    for (name, log, probs, kind) in [
        ("LL_defaultDTable", codes::LL_DEFAULT_LOG, &codes::LL_DEFAULT[..], 0),
        ("OF_defaultDTable", codes::OF_DEFAULT_LOG, &codes::OF_DEFAULT[..], 1),
        ("ML_defaultDTable", codes::ML_DEFAULT_LOG, &codes::ML_DEFAULT[..], 2),
    ] {
        let Some(flat) = c_array(&dblock, name) else {
            eng.machinery_broken(&format!("{name} not found"));
        };
        let size = 1usize << log;
        if flat.len() != (size + 1) * 4 {
            eng.machinery_broken(&format!("{name}: unexpected length {}", flat.len()));
        }
        let table = fse::build_dtable(&fse::NCount {
            log,
            probs: probs.to_vec(),
        });
        for (i, e) in table.iter().enumerate() {
            let q = &flat[(i + 1) * 4..(i + 2) * 4];
            let (base, bits) = match kind {
                0 => {
                    let t = codes::LL_TABLE[e.symbol as usize];
                    (t.0 as i64, t.1 as i64)
                }
                2 => {
                    let t = codes::ML_TABLE[e.symbol as usize];
                    (t.0 as i64, t.1 as i64)
                }
                // libzstd stores offset base minus the 3 repeat codes: OF_base[c] = (1<<c) - 3 (c >= 2), {0,1,1} below
                _ => {
                    let c = e.symbol as i64;
                    ([0i64, 1, 1].get(c as usize).copied().unwrap_or((1 << c) - 3), c)
                }
            };
            if q[0] != e.base as i64 || q[2] != e.nb as i64 || q[1] != bits || q[3] != base {
                eng.machinery_broken(&format!(
                    "{name}[{i}]: libzstd {q:?} vs model base {} nb {} sym {}",
                    e.base, e.nb, e.symbol
                ));
            }
        }
        eng.selftest_count("predefined_dtable_states_equal_libzstd", size as u64);
    }
}

/// walker + xxh64 against reference-compressed frames: content, header parse, frame length, checksum
pub fn walker_vs_reference(eng: &Engine, frames: &[(Vec<u8>, Vec<u8>)]) {
    for (data, frame_bytes) in frames {
        let info = match frame::walk(frame_bytes, &frame::WalkOpts::default()) {
            Ok(i) => i,
            Err(e) => eng.machinery_broken(&format!("walker rejects a reference frame: {e}")),
        };
        if &info.content != data {
            eng.machinery_broken("walker content differs from original");
        }
        let rh = refz::frame_header(frame_bytes).unwrap();
        if rh.window_size != info.header.window_size
            || rh.content_size != info.header.fcs
            || rh.header_size as usize != info.header.header_len
            || rh.checksum != info.header.checksum_flag
        {
            eng.machinery_broken(&format!("walker header {:?} != libzstd {:?}", info.header, rh));
        }
        if refz::find_frame_size(frame_bytes).ok() != Some(info.frame_len) {
            eng.machinery_broken("walker frame length != ZSTD_findFrameCompressedSize");
        }
        eng.selftest_count("walker_frames_equal_reference", 1);
    }
}
