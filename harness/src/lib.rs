//! vcheck library: everything except the command-line driver and the global allocator
//! (shared with the cargo-fuzz targets in /verif/fuzz).

#![allow(dead_code, clippy::all)]
pub mod alloc;
pub mod debug;
pub mod drivers;
pub mod engine;
pub mod gen;
pub use ringops::model;
pub mod props;
pub mod refz;
pub mod selftest;
