//! Counting / guarding global allocator.
//!
//! * per-thread counters (live bytes, peak, largest single request) so that a case running on a
//!   worker thread can be measured in isolation (the crate under test is single-threaded);
//! * optional per-thread "guard mode": every allocation made by that thread is surrounded by two
//!   64-byte canaries and its body is filled with a poison pattern; canaries are verified on free.
//!   A damaged canary sets a per-thread flag that the check inspects (never panics in here);
//! * optional per-thread "fence mode" (electric fence): every byte-aligned allocation made by that
//!   thread is placed in its own mmap'd region so that it ends exactly at (mode 1) or starts
//!   exactly at (mode 2) an inaccessible page. A read or write beyond that edge - even one that never
//!   flows into visible data, like the over-read of a 16-byte chunked copy - kills the process with
//!   SIGSEGV, which the launcher turns into a localised replay file. The slack on the other side is
//!   filled with canaries and verified on free;
//! * a process-wide cap on live bytes: exceeding it ends the run as "inconclusive" (exit 2).

use std::alloc::{GlobalAlloc, Layout, System};
use std::cell::Cell;
use std::sync::atomic::{AtomicUsize, Ordering};

pub struct VAlloc;

const PAD: usize = 64;
const CANARY: u8 = 0xA7;

thread_local! {
    static LIVE: Cell<isize> = const { Cell::new(0) };
    static PEAK: Cell<isize> = const { Cell::new(0) };
    static LARGEST: Cell<usize> = const { Cell::new(0) };
    static GUARD: Cell<bool> = const { Cell::new(false) };
    static DAMAGED: Cell<usize> = const { Cell::new(0) };
    static POISON: Cell<u8> = const { Cell::new(0xC1) };
    static TABLE: Cell<[usize; 64]> = const { Cell::new([0; 64]) };
    static TABLE_N: Cell<usize> = const { Cell::new(0) };
    static FENCE: Cell<u8> = const { Cell::new(0) };
    static FTABLE: Cell<[[usize; 2]; 64]> = const { Cell::new([[0; 2]; 64]) };
    static FTABLE_N: Cell<usize> = const { Cell::new(0) };
    static FREGIONS: Cell<[[usize; 4]; FENCE_CACHE_PAGES]> = const { Cell::new([[0; 4]; FENCE_CACHE_PAGES]) };
    static FENCED_ALLOCS: Cell<usize> = const { Cell::new(0) };
    /// live-heap ceiling of this thread above which requests are refused (0 = none)
    static CEILING: Cell<isize> = const { Cell::new(0) };
    static REFUSED: Cell<usize> = const { Cell::new(0) };
}

const PAGE: usize = 4096;
const FENCE_MAX: usize = 8 << 20;
const FENCE_CACHE_PAGES: usize = 8;

extern "C" {
    fn mmap(addr: *mut u8, len: usize, prot: i32, flags: i32, fd: i32, off: i64) -> *mut u8;
    fn munmap(addr: *mut u8, len: usize) -> i32;
    fn mprotect(addr: *mut u8, len: usize, prot: i32) -> i32;
}

/// Returns the start of `pages` accessible pages with an inaccessible page on either side.
unsafe fn fence_region(pages: usize) -> *mut u8 {
    if pages <= FENCE_CACHE_PAGES {
        let got = FREGIONS
            .try_with(|c| {
                let mut a = c.get();
                for slot in a[pages - 1].iter_mut() {
                    if *slot != 0 {
                        let p = *slot;
                        *slot = 0;
                        c.set(a);
                        return p;
                    }
                }
                0
            })
            .unwrap_or(0);
        if got != 0 {
            return got as *mut u8;
        }
    }
    let total = (pages + 2) * PAGE;
    // PROT_READ|PROT_WRITE = 3, MAP_PRIVATE|MAP_ANONYMOUS = 0x22
    let base = mmap(std::ptr::null_mut(), total, 3, 0x22, -1, 0);
    if base as isize == -1 || base.is_null() {
        return std::ptr::null_mut();
    }
    if mprotect(base, PAGE, 0) != 0 || mprotect(base.add(PAGE + pages * PAGE), PAGE, 0) != 0 {
        munmap(base, total);
        return std::ptr::null_mut();
    }
    base.add(PAGE)
}

unsafe fn fence_release(data: *mut u8, pages: usize) {
    if pages <= FENCE_CACHE_PAGES {
        let kept = FREGIONS
            .try_with(|c| {
                let mut a = c.get();
                for slot in a[pages - 1].iter_mut() {
                    if *slot == 0 {
                        *slot = data as usize;
                        c.set(a);
                        return true;
                    }
                }
                false
            })
            .unwrap_or(false);
        if kept {
            return;
        }
    }
    munmap(data.sub(PAGE), (pages + 2) * PAGE);
}

unsafe fn fence_alloc(size: usize, mode: u8) -> *mut u8 {
    let pages = size.div_ceil(PAGE);
    let data = fence_region(pages);
    if data.is_null() {
        return data;
    }
    let span = pages * PAGE;
    let ptr = if mode == 1 { data.add(span - size) } else { data };
    let inserted = FTABLE
        .try_with(|t| {
            let mut a = t.get();
            for slot in a.iter_mut() {
                if slot[0] == 0 {
                    *slot = [ptr as usize, mode as usize];
                    t.set(a);
                    let _ = FTABLE_N.try_with(|n| n.set(n.get() + 1));
                    return true;
                }
            }
            false
        })
        .unwrap_or(false);
    if !inserted {
        fence_release(data, pages);
        return std::ptr::null_mut();
    }
    std::ptr::write_bytes(data, CANARY, span);
    let poison = POISON
        .try_with(|c| {
            let v = c.get();
            c.set(v.wrapping_mul(31).wrapping_add(7) | 0x80);
            v
        })
        .unwrap_or(0xC1);
    std::ptr::write_bytes(ptr, poison, size);
    let _ = FENCED_ALLOCS.try_with(|n| n.set(n.get() + 1));
    ptr
}

/// If `ptr` is a fenced block: verifies the slack canaries, releases the region, returns true.
unsafe fn fence_free(ptr: *mut u8, size: usize) -> bool {
    if FTABLE_N.try_with(|n| n.get()).unwrap_or(0) == 0 {
        return false;
    }
    let mode = FTABLE
        .try_with(|t| {
            let mut a = t.get();
            for slot in a.iter_mut() {
                if slot[0] == ptr as usize {
                    let m = slot[1];
                    *slot = [0, 0];
                    t.set(a);
                    let _ = FTABLE_N.try_with(|n| n.set(n.get() - 1));
                    return m;
                }
            }
            0
        })
        .unwrap_or(0);
    if mode == 0 {
        return false;
    }
    let pages = size.div_ceil(PAGE);
    let span = pages * PAGE;
    let data = if mode == 1 { ptr.add(size).sub(span) } else { ptr };
    let (slack, slack_len) = if mode == 1 { (data, span - size) } else { (ptr.add(size), span - size) };
    let mut bad = 0usize;
    for i in 0..slack_len {
        if *slack.add(i) != CANARY {
            bad += 1;
        }
    }
    if bad != 0 {
        let _ = DAMAGED.try_with(|d| d.set(d.get() + 1));
    }
    fence_release(data, pages);
    true
}

fn table_insert(p: usize) -> bool {
    TABLE
        .try_with(|t| {
            let mut a = t.get();
            for slot in a.iter_mut() {
                if *slot == 0 {
                    *slot = p;
                    t.set(a);
                    let _ = TABLE_N.try_with(|n| n.set(n.get() + 1));
                    return true;
                }
            }
            false
        })
        .unwrap_or(false)
}

fn table_remove(p: usize) -> bool {
    if TABLE_N.try_with(|n| n.get()).unwrap_or(0) == 0 {
        return false;
    }
    TABLE
        .try_with(|t| {
            let mut a = t.get();
            for slot in a.iter_mut() {
                if *slot == p {
                    *slot = 0;
                    t.set(a);
                    let _ = TABLE_N.try_with(|n| n.set(n.get() - 1));
                    return true;
                }
            }
            false
        })
        .unwrap_or(false)
}

/// 2^47 bytes: the size of the user half of the x86-64 address space
const IMPOSSIBLE: usize = 1 << 47;
static GLOBAL_LIVE: AtomicUsize = AtomicUsize::new(0);
static GLOBAL_CAP: AtomicUsize = AtomicUsize::new(48 << 30);

fn account_alloc(size: usize) {
    let _ = LIVE.try_with(|l| {
        let v = l.get() + size as isize;
        l.set(v);
        let _ = PEAK.try_with(|p| {
            if v > p.get() {
                p.set(v)
            }
        });
    });
    let _ = LARGEST.try_with(|l| {
        if size > l.get() {
            l.set(size)
        }
    });
    let g = GLOBAL_LIVE.fetch_add(size, Ordering::Relaxed) + size;
    if g > GLOBAL_CAP.load(Ordering::Relaxed) {
        // cannot allocate / format here: write a fixed message and leave
        let msg = b"INCONCLUSIVE: harness allocation cap exceeded\n";
        unsafe {
            libc_write(2, msg.as_ptr(), msg.len());
            libc_exit(2);
        }
    }
}

fn account_free(size: usize) {
    let _ = LIVE.try_with(|l| l.set(l.get() - size as isize));
    GLOBAL_LIVE.fetch_sub(size, Ordering::Relaxed);
}

extern "C" {
    #[link_name = "write"]
    fn libc_write(fd: i32, buf: *const u8, n: usize) -> isize;
    #[link_name = "_exit"]
    fn libc_exit(code: i32) -> !;
}

// ---- process-wide cache of large blocks -------------------------------------------------------
// Every case allocates and frees a few buffers of hundreds of KiB to MiB; handing them back to
// the kernel each time costs more (munmap / page faults) than the checks themselves. Large blocks
// are rounded up to a power of two and parked in a small global cache instead.
const CACHE_MIN_SHIFT: usize = 16; // 64 KiB
const CACHE_MAX_SHIFT: usize = 27; // 128 MiB
const CACHE_SLOTS: usize = 24;
const CACHE_CLASSES: usize = CACHE_MAX_SHIFT - CACHE_MIN_SHIFT + 1;
static CACHE_LOCK: std::sync::atomic::AtomicBool = std::sync::atomic::AtomicBool::new(false);
static mut CACHE: [[usize; CACHE_SLOTS]; CACHE_CLASSES] = [[0; CACHE_SLOTS]; CACHE_CLASSES];
static CACHED_BYTES: AtomicUsize = AtomicUsize::new(0);
const CACHE_BUDGET: usize = 6 << 30;

fn cache_class(size: usize, align: usize) -> Option<usize> {
    if align > 4096 || size < (1 << CACHE_MIN_SHIFT) || size > (1 << CACHE_MAX_SHIFT) {
        return None;
    }
    Some(size.next_power_of_two().trailing_zeros() as usize - CACHE_MIN_SHIFT)
}

fn with_cache<R>(f: impl FnOnce(&mut [[usize; CACHE_SLOTS]; CACHE_CLASSES]) -> R) -> R {
    while CACHE_LOCK.compare_exchange_weak(false, true, Ordering::Acquire, Ordering::Relaxed).is_err() {
        std::hint::spin_loop();
    }
    #[allow(static_mut_refs)]
    let r = f(unsafe { &mut CACHE });
    CACHE_LOCK.store(false, Ordering::Release);
    r
}

unsafe fn big_alloc(class: usize) -> *mut u8 {
    let got = with_cache(|c| {
        for slot in c[class].iter_mut() {
            if *slot != 0 {
                let p = *slot;
                *slot = 0;
                return p;
            }
        }
        0
    });
    let bytes = 1usize << (class + CACHE_MIN_SHIFT);
    if got != 0 {
        CACHED_BYTES.fetch_sub(bytes, Ordering::Relaxed);
        return got as *mut u8;
    }
    System.alloc(Layout::from_size_align_unchecked(bytes, 4096))
}

unsafe fn big_free(ptr: *mut u8, class: usize) {
    let bytes = 1usize << (class + CACHE_MIN_SHIFT);
    if CACHED_BYTES.load(Ordering::Relaxed) + bytes <= CACHE_BUDGET {
        let kept = with_cache(|c| {
            for slot in c[class].iter_mut() {
                if *slot == 0 {
                    *slot = ptr as usize;
                    return true;
                }
            }
            false
        });
        if kept {
            CACHED_BYTES.fetch_add(bytes, Ordering::Relaxed);
            return;
        }
    }
    System.dealloc(ptr, Layout::from_size_align_unchecked(bytes, 4096));
}

unsafe impl GlobalAlloc for VAlloc {
    unsafe fn alloc(&self, layout: Layout) -> *mut u8 {
        if layout.size() >= IMPOSSIBLE {
            // no allocator can satisfy a request as large as the whole user address space: answer
            // as every real one does (null; the caller aborts through handle_alloc_error unless
            // it used a try_ method). The harness cap below is about the sum of sane requests.
            return std::ptr::null_mut();
        }
        let ceiling = CEILING.try_with(|c| c.get()).unwrap_or(0);
        if ceiling != 0 && LIVE.try_with(|l| l.get()).unwrap_or(0) + layout.size() as isize > ceiling {
            // a machine with this much memory left: the request fails, as it would there
            let _ = REFUSED.try_with(|r| r.set(r.get() + 1));
            return std::ptr::null_mut();
        }
        account_alloc(layout.size());
        let fence = FENCE.try_with(|g| g.get()).unwrap_or(0);
        if fence != 0 && layout.align() == 1 && layout.size() > 0 && layout.size() <= FENCE_MAX {
            let p = fence_alloc(layout.size(), fence);
            if !p.is_null() {
                return p;
            }
        }
        if let Some(class) = cache_class(layout.size(), layout.align()) {
            return big_alloc(class);
        }
        let guard = GUARD.try_with(|g| g.get()).unwrap_or(false);
        if guard && layout.align() <= PAD {
            let total = layout.size() + 2 * PAD;
            let big = Layout::from_size_align_unchecked(total, PAD);
            let p = System.alloc(big);
            if p.is_null() {
                return p;
            }
            if !table_insert(p as usize + PAD) {
                System.dealloc(p, big);
                return System.alloc(layout);
            }
            std::ptr::write_bytes(p, CANARY, PAD);
            let poison = POISON.try_with(|c| {
                let v = c.get();
                c.set(v.wrapping_mul(31).wrapping_add(7) | 0x80);
                v
            });
            std::ptr::write_bytes(p.add(PAD), poison.unwrap_or(0xC1), layout.size());
            std::ptr::write_bytes(p.add(PAD + layout.size()), CANARY, PAD);
            p.add(PAD)
        } else {
            System.alloc(layout)
        }
    }

    unsafe fn dealloc(&self, ptr: *mut u8, layout: Layout) {
        account_free(layout.size());
        if layout.align() == 1 && fence_free(ptr, layout.size()) {
            return;
        }
        if let Some(class) = cache_class(layout.size(), layout.align()) {
            return big_free(ptr, class);
        }
        // padded blocks are recognised through the per-thread side table (so blocks allocated
        // outside guard mode, or when the table was full, take the plain path)
        if table_remove(ptr as usize) {
            let p = ptr.sub(PAD);
            let mut bad = 0usize;
            for i in 0..PAD {
                if *p.add(i) != CANARY {
                    bad += 1;
                }
            }
            for i in 0..PAD {
                if *ptr.add(layout.size() + i) != CANARY {
                    bad += 1;
                }
            }
            if bad != 0 {
                let _ = DAMAGED.try_with(|d| d.set(d.get() + 1));
            }
            let total = layout.size() + 2 * PAD;
            System.dealloc(p, Layout::from_size_align_unchecked(total, PAD));
        } else {
            System.dealloc(ptr, layout)
        }
    }
}

pub fn set_global_cap(bytes: usize) {
    GLOBAL_CAP.store(bytes, Ordering::Relaxed);
}

/// Measurement window on the current thread.
pub struct Meter {
    base_live: isize,
}

impl Meter {
    pub fn start() -> Meter {
        let base = LIVE.with(|l| l.get());
        PEAK.with(|p| p.set(base));
        LARGEST.with(|l| l.set(0));
        Meter { base_live: base }
    }
    /// peak live bytes above the level at `start`
    pub fn peak(&self) -> usize {
        (PEAK.with(|p| p.get()) - self.base_live).max(0) as usize
    }
    pub fn live(&self) -> usize {
        (LIVE.with(|l| l.get()) - self.base_live).max(0) as usize
    }
    pub fn largest_request(&self) -> usize {
        LARGEST.with(|l| l.get())
    }
    pub fn reset_largest(&self) {
        LARGEST.with(|l| l.set(0));
    }
}

/// Runs `f` with guard mode on for this thread. Blocks allocated inside are padded and tracked in
/// a per-thread side table, so they may be freed after the scope ends (on the same thread); the
/// result type is `Copy` so that nothing allocated inside travels to another thread.
/// Returns (result, number of damaged blocks seen on free).
pub fn guarded_scope<R: Copy>(f: impl FnOnce() -> R) -> (R, usize) {
    DAMAGED.with(|d| d.set(0));
    GUARD.with(|g| g.set(true));
    let r = f();
    GUARD.with(|g| g.set(false));
    (r, DAMAGED.with(|d| d.get()))
}

/// Runs `f` on a "machine" that has `bytes` of heap left for this thread: requests beyond that are
/// answered with null, exactly as an allocator out of memory answers them (code that cannot cope
/// panics or aborts - which is then the observation). Returns (result, refused requests).
pub fn ceiling_scope<R>(bytes: usize, f: impl FnOnce() -> R) -> (R, usize) {
    let base = LIVE.with(|l| l.get());
    REFUSED.with(|r| r.set(0));
    CEILING.with(|c| c.set(base + bytes as isize));
    let r = f();
    CEILING.with(|c| c.set(0));
    (r, REFUSED.with(|r| r.get()))
}

/// Runs `f` with fence mode on for this thread (mode 1: blocks end at an inaccessible page, mode 2:
/// blocks start at one). Returns (result, damaged slack regions seen on free, fenced allocations).
pub fn fenced_scope<R: Copy>(mode: u8, f: impl FnOnce() -> R) -> (R, usize, usize) {
    DAMAGED.with(|d| d.set(0));
    FENCED_ALLOCS.with(|n| n.set(0));
    FENCE.with(|g| g.set(mode));
    let r = f();
    FENCE.with(|g| g.set(0));
    (r, DAMAGED.with(|d| d.get()), FENCED_ALLOCS.with(|n| n.get()))
}
