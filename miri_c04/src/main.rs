//! Replays ring / decode-buffer op lists (JSON files written by `vcheck C04 --tier thorough`, plus the
//! committed regress files) under Miri: out-of-bounds reads, reads of uninitialised memory by the
//! 16-byte chunk copy and provenance errors become visible.
//! usage: cargo +nightly miri run -- <dir-or-file>...

use ringops::*;

fn run_file(path: &std::path::Path) -> Result<(), String> {
    let text = std::fs::read_to_string(path).map_err(|e| format!("{e}"))?;
    let v: serde_json::Value = serde_json::from_str(&text).map_err(|e| format!("{e}"))?;
    // either a bare op list / DCase, or a replay document {"stage":..., "case":...}
    let (stage, case) = if v.get("case").is_some() {
        (v["stage"].as_str().unwrap_or("").to_string(), v["case"].clone())
    } else if v.is_array() {
        ("ring_ops".to_string(), v)
    } else {
        ("decodebuf_ops".to_string(), v)
    };
    if stage == "ring_ops" {
        let ops: Vec<Op> = serde_json::from_value(case).map_err(|e| format!("{e}"))?;
        let mut st = RbStats::default();
        if let Some((i, code)) = exec_ring(&ops, 1 << 16, &mut st) {
            return Err(format!("{}: op #{i}", code_name(code)));
        }
    } else {
        let c: DCase = serde_json::from_value(case).map_err(|e| format!("{e}"))?;
        let mut msg = String::new();
        let mut feats = vec![];
        if let Some(kind) = exec_decodebuf(&c, &mut msg, &mut feats) {
            return Err(format!("{kind}: {msg}"));
        }
    }
    Ok(())
}

fn main() {
    let mut files = vec![];
    for a in std::env::args().skip(1) {
        let p = std::path::PathBuf::from(a);
        if p.is_dir() {
            let mut v: Vec<_> = std::fs::read_dir(&p).unwrap().filter_map(|e| e.ok()).map(|e| e.path()).collect();
            v.sort();
            files.extend(v);
        } else {
            files.push(p);
        }
    }
    let mut n = 0;
    for f in &files {
        println!("MIRI-FILE {}", f.display());
        if f.extension().map(|e| e == "json").unwrap_or(false) {
            if let Err(e) = run_file(f) {
                println!("MIRI-REPLAY-FAILURE file={} {}", f.display(), e);
                std::process::exit(1);
            }
            n += 1;
        }
    }
    println!("miri replay: {n} op lists executed, no failure");
}
