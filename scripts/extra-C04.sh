#!/bin/bash
# C04 wrapper: deterministic harness layer, then (thorough tier) the same op lists under Miri and,
# through the libFuzzer targets ringbuf_ops / decodebuf_ops, under AddressSanitizer + debug assertions.
set -u
ID=C04
source /verif/scripts/common.sh
TIER="${VERIF_TIER:-quick}"
REPLAY=""
args=("$@"); for ((i=1;i<${#args[@]};i++)); do [ "${args[$i]}" = "--replay" ] && REPLAY="${args[$((i+1))]:-}"; done

if [ -n "$REPLAY" ]; then
  case "$REPLAY" in
    */fuzz-*) fuzz_replay "$ID" "$REPLAY"; exit $?;;
  esac
  run_vcheck "$@"; rc=$?
  if [ $rc -eq 0 ] && [ "${VERIF_MIRI_REPLAY:-1}" = "1" ]; then
    # a replay file that passes natively may still be a Miri-only failure (out-of-bounds / uninitialised read)
    miri_run "$REPLAY" >/verif/target/miri-replay.log 2>&1
    if grep -q "MIRI-REPLAY-FAILURE\|Undefined Behavior" /verif/target/miri-replay.log; then
      echo "VIOLATION property=$ID replay=$REPLAY"
      grep -m3 "MIRI-REPLAY-FAILURE\|Undefined Behavior\|error:" /verif/target/miri-replay.log | sed 's/^/  /'
      exit 1
    fi
  fi
  exit $rc
fi

run_vcheck "$@"; rc=$?
[ $rc -ne 0 ] && exit $rc

MIRI_LISTS=0; MIRI_STATUS="not run in the quick tier"
FUZZ_JSON="{}"
if [ "$TIER" = "thorough" ]; then
  # ---- Miri over the exported op lists + every committed regress file, 8 processes
  CORPUS=/verif/target/c04_corpus
  mkdir -p "$CORPUS"; cp /verif/regress/C04/*.json "$CORPUS"/ 2>/dev/null
  ls "$CORPUS"/*.json > /verif/target/c04_files.txt 2>/dev/null
  MIRI_LISTS=$(wc -l < /verif/target/c04_files.txt)
  miri_build || { echo "INCONCLUSIVE property=$ID miri build failed"; exit 2; }
  rm -f /verif/target/miri-part-*.log
  split -n l/8 -d /verif/target/c04_files.txt /verif/target/c04_part_
  pids=()
  for part in /verif/target/c04_part_*; do
    ( miri_run $(cat "$part") > /verif/target/miri-part-$(basename "$part").log 2>&1 ) &
    pids+=($!)
  done
  for p in "${pids[@]}"; do wait $p; done
  if grep -l "MIRI-REPLAY-FAILURE\|Undefined Behavior" /verif/target/miri-part-*.log >/dev/null 2>&1; then
    bad=$(grep -h -m1 -o "file=[^ ]*" /verif/target/miri-part-*.log | head -1 | cut -d= -f2)
    if [ -z "$bad" ]; then
      # UB aborts Miri before our own message: the file being executed is the last one announced
      bad=$(grep -h "MIRI-FILE" /verif/target/miri-part-*.log | tail -1 | awk '{print $2}')
    fi
    mkdir -p /verif/replays/$ID; dest=/verif/replays/$ID/miri-$(basename "${bad:-unknown.json}")
    [ -n "$bad" ] && cp "$bad" "$dest"
    echo "VIOLATION property=$ID replay=$dest"
    grep -h -m3 "MIRI-REPLAY-FAILURE\|Undefined Behavior\|error:" /verif/target/miri-part-*.log | sed 's/^/  /'
    merge_evidence "$ID" "{\"miri\": {\"lists\": $MIRI_LISTS, \"status\": \"failure\"}}" 1
    exit 1
  fi
  if ! grep -q "no failure" /verif/target/miri-part-*.log; then
    echo "INCONCLUSIVE property=$ID miri replay did not complete"; tail -5 /verif/target/miri-part-*.log; exit 2
  fi
  MIRI_STATUS="clean"
  # ---- ASan: coverage-guided + corpus
  # (an op list uses at most 800 / 604 input bytes: longer inputs only slow the engine down)
  export VERIF_FUZZ_JOBS=${VERIF_FUZZ_JOBS:-16}
  FUZZ_MAX_LEN=800 fuzz_campaign "$ID" ringbuf_ops 1000000 || exit $?
  FUZZ_MAX_LEN=604 fuzz_campaign "$ID" decodebuf_ops 2000000 || exit $?
  FUZZ_JSON=$(cat /verif/target/fuzz-stats-$ID.json 2>/dev/null || echo "{}")
fi
merge_evidence "$ID" "{\"miri\": {\"lists\": $MIRI_LISTS, \"status\": \"$MIRI_STATUS\"}, \"fuzz\": $FUZZ_JSON}" 0
exit 0
