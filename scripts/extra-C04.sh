#!/bin/bash
# C04 wrapper: deterministic harness layer, then (thorough tier) the same op lists under Miri and,
# through the libFuzzer targets ringbuf_ops / decodebuf_ops, under AddressSanitizer + debug assertions.
set -u
ID=C04
source /verif/scripts/common.sh
TIER="${VERIF_TIER:-quick}"
REPLAY=""
args=("$@"); for ((i=1;i<${#args[@]};i++)); do [ "${args[$i]}" = "--replay" ] && REPLAY="${args[$((i+1))]:-}"; done

if [ -n "$REPLAY" ]; then
  case "$REPLAY" in
    */fuzz-*) fuzz_replay "$ID" "$REPLAY"; exit $?;;
  esac
  run_vcheck "$@"; rc=$?
  if [ $rc -eq 0 ] && [ "${VERIF_MIRI_REPLAY:-1}" = "1" ]; then
    # a replay file that passes natively may still be a Miri-only failure (out-of-bounds / uninitialised read)
    miri_run "$REPLAY" >/verif/target/miri-replay.log 2>&1
    if grep -q "MIRI-REPLAY-FAILURE\|Undefined Behavior" /verif/target/miri-replay.log; then
      echo "VIOLATION property=$ID replay=$REPLAY"
      grep -m3 "MIRI-REPLAY-FAILURE\|Undefined Behavior\|error:" /verif/target/miri-replay.log | sed 's/^/  /'
      exit 1
    fi
  fi
  exit $rc
fi

run_vcheck "$@"; rc=$?
[ $rc -ne 0 ] && exit $rc

MIRI_LISTS=0; MIRI_STATUS="not run in the quick tier"
FUZZ_JSON="{}"
if [ "$TIER" = "thorough" ]; then
  # ---- Miri over the exported op lists + every committed regress file, 8 processes
  CORPUS=/verif/target/c04_corpus
  mkdir -p "$CORPUS"; cp /verif/regress/C04/*.json "$CORPUS"/ 2>/dev/null
  ls "$CORPUS"/*.json > /verif/target/c04_files.txt 2>/dev/null
  MIRI_LISTS=$(wc -l < /verif/target/c04_files.txt)
  miri_build || { echo "INCONCLUSIVE property=$ID miri build failed"; exit 2; }
  rm -f /verif/target/miri-part-*.log /verif/target/c04_part_* /verif/target/miri-skipped.txt
  # one Miri process per batch of 8 lists, 8 processes at a time. (A single long-lived process
  # showed a pathology of the interpreter: after some dozens of lists one ordinary list would take
  # an hour that takes seconds on its own.) A batch that exceeds its time is re-run list by list;
  # a list that still exceeds 150 s alone (4 s is normal) is recorded as skipped, not as a failure:
  # gdb shows the interpreter inside DedupRangeMap::split_index of its Stacked Borrows bookkeeping
  # (memcpy of a fragmented per-byte range map on every retag), not in the code under test.
  split -l 8 -d -a 3 /verif/target/c04_files.txt /verif/target/c04_part_
  miri_batch() {
    local part="$1"; local log=/verif/target/miri-part-$(basename "$part").log
    timeout 300 bash -c "source /verif/scripts/common.sh; miri_run $(tr '\n' ' ' < "$part")" > "$log" 2>&1
    local rc=$?
    if [ $rc -eq 124 ] || [ $rc -eq 137 ]; then
      : > "$log"
      while read -r f; do
        timeout 150 bash -c "source /verif/scripts/common.sh; miri_run $f" >> "$log" 2>&1
        local r=$?
        if [ $r -eq 124 ] || [ $r -eq 137 ]; then echo "$f" >> /verif/target/miri-skipped.txt; echo "miri replay: 0 op lists executed, no failure (skipped $f: time limit)" >> "$log"; fi
      done < "$part"
    fi
  }
  export -f miri_batch
  ls /verif/target/c04_part_* | xargs -P 8 -I{} bash -c 'miri_batch {}'
  if grep -l "MIRI-REPLAY-FAILURE\|Undefined Behavior" /verif/target/miri-part-*.log >/dev/null 2>&1; then
    badlog=$(grep -l "MIRI-REPLAY-FAILURE\|Undefined Behavior" /verif/target/miri-part-*.log | head -1)
    bad=$(grep -h -m1 -o "file=[^ ]*" "$badlog" | head -1 | cut -d= -f2)
    if [ -z "$bad" ]; then
      # UB aborts Miri before our own message: the file being executed is the last one announced
      bad=$(grep -h "MIRI-FILE" "$badlog" | tail -1 | awk '{print $2}')
    fi
    mkdir -p /verif/replays/$ID; dest=/verif/replays/$ID/miri-$(basename "${bad:-unknown.json}")
    [ -n "$bad" ] && cp "$bad" "$dest"
    echo "VIOLATION property=$ID replay=$dest"
    grep -h -m3 "MIRI-REPLAY-FAILURE\|Undefined Behavior\|error:" "$badlog" | sed 's/^/  /'
    merge_evidence "$ID" "{\"miri\": {\"lists\": $MIRI_LISTS, \"status\": \"failure\"}}" 1
    exit 1
  fi
  for log in /verif/target/miri-part-*.log; do
    if ! grep -q "no failure" "$log"; then
      echo "INCONCLUSIVE property=$ID miri replay did not complete ($log)"; tail -5 "$log"; exit 2
    fi
  done
  MIRI_SKIPPED=$(cat /verif/target/miri-skipped.txt 2>/dev/null | wc -l)
  MIRI_STATUS="clean"; [ "$MIRI_SKIPPED" -gt 0 ] && MIRI_STATUS="clean ($MIRI_SKIPPED of $MIRI_LISTS lists skipped: over 150 s of interpreter time each; 4 s is normal - the interpreter's Stacked Borrows range map degenerates on them)"
  # ---- ASan: coverage-guided + corpus
  # (an op list uses at most 800 / 604 input bytes: longer inputs only slow the engine down)
  export VERIF_FUZZ_JOBS=${VERIF_FUZZ_JOBS:-16}
  FUZZ_MAX_LEN=800 fuzz_campaign "$ID" ringbuf_ops 500000 || exit $?
  FUZZ_MAX_LEN=604 fuzz_campaign "$ID" decodebuf_ops 1000000 || exit $?
  FUZZ_JSON=$(cat /verif/target/fuzz-stats-$ID.json 2>/dev/null || echo "{}")
fi
merge_evidence "$ID" "{\"miri\": {\"lists\": $MIRI_LISTS, \"status\": \"$MIRI_STATUS\"}, \"fuzz\": $FUZZ_JSON}" 0
exit 0
