# shared shell functions for ./check and scripts/extra-*.sh (sourced)
export CARGO_NET_OFFLINE=true
FUZZ_TARGET_DIR=/verif/target/fuzz
MIRI_TARGET_DIR=/verif/target/miri

run_vcheck() {
  /verif/target/release/vcheck "$@"
  local rc=$?
  if [ $rc -ge 126 ]; then
    # the harness process died (signal / abort): memory corruption or stack exhaustion in the code
    # under test. Localise it: single thread, every case written to disk before it runs.
    local replay=""
    local a=("$@"); for ((i=1;i<${#a[@]};i++)); do [ "${a[$i]}" = "--replay" ] && replay="${a[$((i+1))]:-}"; done
    if [ -n "$replay" ]; then
      echo "VIOLATION property=$ID replay=$replay"
      echo "  kind=crash :: the process replaying this case died with status $rc"
      return 1
    fi
    echo "harness process died with status $rc; re-running in crash-localisation mode" >&2
    local trace=/verif/target/trace-$ID.json
    rm -f "$trace"
    VERIF_WORKERS=1 VERIF_TRACE="$trace" /verif/target/release/vcheck "$@" >/verif/target/trace-$ID.log 2>&1
    local rc2=$?
    if [ $rc2 -ge 126 ] && [ -s "$trace" ]; then
      mkdir -p /verif/replays/$ID
      local dest=/verif/replays/$ID/crash-$(md5sum "$trace" | cut -c1-16).json
      cp "$trace" "$dest"
      echo "VIOLATION property=$ID replay=$dest"
      echo "  kind=crash :: the process executing this case died with status $rc2"
      return 1
    fi
    if [ $rc2 -eq 1 ]; then
      grep -E "^VIOLATION|^  " /verif/target/trace-$ID.log
      return 1
    fi
    echo "INCONCLUSIVE property=$ID harness crashed with status $rc but the crash did not reproduce single-threaded"
    return 2
  fi
  return $rc
}

miri_build() {
  ( cd /verif/miri_c04 && MIRIFLAGS="-Zmiri-disable-isolation" CARGO_TARGET_DIR=$MIRI_TARGET_DIR cargo +nightly miri run --offline -- >/verif/target/miri-build.log 2>&1 )
}

miri_run() {
  ( cd /verif/miri_c04 && MIRIFLAGS="-Zmiri-disable-isolation" CARGO_TARGET_DIR=$MIRI_TARGET_DIR cargo +nightly miri run --offline -- "$@" )
}

fuzz_build() {
  # builds all targets (ASan + debug assertions) against /repo's working tree
  ( cd /verif/fuzz && CARGO_TARGET_DIR=$FUZZ_TARGET_DIR cargo +nightly fuzz build --fuzz-dir /verif/fuzz >/verif/target/fuzz-build.log 2>&1 )
}

fuzz_bin() { echo "$FUZZ_TARGET_DIR/x86_64-unknown-linux-gnu/release/$1"; }

# fuzz_campaign <property> <target> <runs> [seed-corpus-dir...]
# fixed work (-runs), fresh corpus directory seeded from the given directories; a crash becomes a VIOLATION
fuzz_campaign() {
  local id="$1" target="$2" runs="$3"; shift 3
  local bin; bin=$(fuzz_bin "$target")
  if [ ! -x "$bin" ]; then fuzz_build || { echo "INCONCLUSIVE property=$id fuzz build failed (see /verif/target/fuzz-build.log)"; return 2; }; fi
  local work=/verif/target/fuzz-work/$target
  rm -rf "$work"; mkdir -p "$work/corpus" "$work/artifacts"
  for d in "$@"; do
    [ -d "$d" ] && find "$d" -maxdepth 1 -type f -size -16k | head -400 | while read -r f; do cp "$f" "$work/corpus/seed-$(md5sum "$f" | cut -c1-12)"; done
  done
  local seed=$(( (${VERIF_SEED:-24301} % 2147483646) + 1 ))
  local jobs=${VERIF_FUZZ_JOBS:-8}
  local per=$(( runs / jobs ))
  ( cd "$work" && ASAN_OPTIONS=detect_leaks=0:abort_on_error=0 "$bin" -runs=$per -seed=$seed -max_len=${FUZZ_MAX_LEN:-16384} -len_control=0 -rss_limit_mb=6144 -timeout=120 \
      -print_final_stats=1 -artifact_prefix="$work/artifacts/" -jobs=$jobs -workers=$jobs corpus > "$work/run.log" 2>&1 )
  local rc=$?
  local execs=0
  for f in "$work"/fuzz-*.log; do
    [ -f "$f" ] && execs=$(( execs + $(grep -h "stat::number_of_executed_units" "$f" | awk '{s+=$2} END{print s+0}') ))
  done
  local cov; cov=$(grep -h "cov: " "$work"/fuzz-*.log 2>/dev/null | sed 's/.*cov: \([0-9]*\).*/\1/' | sort -n | tail -1)
  local corpus_n; corpus_n=$(ls "$work/corpus" | wc -l)
  python3 - "$id" "$target" "$execs" "${cov:-0}" "$corpus_n" <<'PY'
import json,sys,os
id,target,execs,cov,corp=sys.argv[1:]
p=f"/verif/target/fuzz-stats-{id}.json"
d=json.load(open(p)) if os.path.exists(p) else {}
d[target]={"executions":int(execs),"edge_coverage":int(cov),"corpus_files":int(corp),"sanitizer":"AddressSanitizer + debug assertions","engine":"libFuzzer (cargo-fuzz), fixed -runs, fresh corpus"}
json.dump(d,open(p,"w"))
PY
  local art; art=$(ls "$work/artifacts" 2>/dev/null | grep -E "^(crash|timeout|oom)-" | head -1)
  if [ -n "$art" ]; then
    local kind=${art%%-*}
    if [ "$kind" = "oom" ]; then
      echo "INCONCLUSIVE property=$id fuzz target $target hit the RSS limit (artifact kept in $work/artifacts/$art)"
      return 2
    fi
    if [ "$kind" = "timeout" ] && [ "$id" != "C03" ]; then
      echo "INCONCLUSIVE property=$id fuzz target $target timed out on an input"
      return 2
    fi
    mkdir -p /verif/replays/$id
    local dest=/verif/replays/$id/fuzz-$target-$art
    cp "$work/artifacts/$art" "$dest"
    echo "VIOLATION property=$id replay=$dest"
    grep -h "panicked at\|ERROR: AddressSanitizer\|SUMMARY:\|C0[34]" "$work"/fuzz-*.log | head -4 | cut -c1-300 | sed 's/^/  /'
    return 1
  fi
  if [ $rc -ne 0 ] && [ "$execs" -eq 0 ]; then
    echo "INCONCLUSIVE property=$id fuzz target $target did not run (rc=$rc)"; tail -5 "$work/run.log"
    return 2
  fi
  echo "[$id] fuzz  $target executions=$execs cov=${cov:-?} corpus=$corpus_n" >&2
  return 0
}

# fuzz_exec_dir <property> <target> <dir>: every file of <dir> executed once by the instrumented
# target (ASan + debug assertions + overflow checks), no mutation; a crash becomes a VIOLATION
fuzz_exec_dir() {
  local id="$1" target="$2" dir="$3"
  local bin; bin=$(fuzz_bin "$target")
  [ -d "$dir" ] || { echo "INCONCLUSIVE property=$id no input directory $dir"; return 2; }
  local work=/verif/target/fuzz-work/$target-exec
  rm -rf "$work"; mkdir -p "$work/artifacts"
  ( cd "$work" && ASAN_OPTIONS=detect_leaks=0:abort_on_error=0 "$bin" -runs=0 -max_len=1000000 -rss_limit_mb=6144 -timeout=120 -artifact_prefix="$work/artifacts/" "$dir" > "$work/run.log" 2>&1 )
  local rc=$?
  local n; n=$(ls "$dir" | wc -l)
  local art; art=$(ls "$work/artifacts" 2>/dev/null | grep -E "^(crash|timeout|oom)-" | head -1)
  if [ -n "$art" ]; then
    local kind=${art%%-*}
    if [ "$kind" = "oom" ]; then echo "INCONCLUSIVE property=$id fuzz target $target hit the RSS limit on a file of $dir"; return 2; fi
    mkdir -p /verif/replays/$id
    local dest=/verif/replays/$id/fuzz-$target-$art
    cp "$work/artifacts/$art" "$dest"
    echo "VIOLATION property=$id replay=$dest"
    grep -h "panicked at\|ERROR: AddressSanitizer\|SUMMARY:\|C0[34]" "$work/run.log" | head -4 | cut -c1-300 | sed 's/^/  /'
    return 1
  fi
  if [ $rc -ne 0 ]; then echo "INCONCLUSIVE property=$id fuzz target $target failed on $dir (rc=$rc)"; tail -5 "$work/run.log"; return 2; fi
  python3 - "$id" "$target" "$n" <<'PY2'
import json,sys,os
id,target,n=sys.argv[1:]
p=f"/verif/target/fuzz-stats-{id}.json"
d=json.load(open(p)) if os.path.exists(p) else {}
d[target+":format_extremes"]={"executions":int(n),"engine":"instrumented target over generated files, one execution each, no mutation","sanitizer":"AddressSanitizer + debug assertions + overflow checks"}
json.dump(d,open(p,"w"))
PY2
  echo "[$id] exec  $target over $n files of $dir" >&2
  return 0
}

# fuzz_replay <property> <artifact path named fuzz-<target>-...>
fuzz_replay() {
  local id="$1" file="$2"
  local base; base=$(basename "$file")
  local target; target=$(echo "$base" | sed 's/^fuzz-\([a-z_]*\)-.*/\1/')
  local bin; bin=$(fuzz_bin "$target")
  fuzz_build || { echo "INCONCLUSIVE property=$id fuzz build failed"; return 2; }
  ASAN_OPTIONS=detect_leaks=0 "$bin" -timeout=120 -rss_limit_mb=6144 "$file" > /verif/target/fuzz-replay.log 2>&1
  local rc=$?
  if [ $rc -ne 0 ]; then
    echo "VIOLATION property=$id replay=$file"
    grep -h -m4 "panicked at\|ERROR: AddressSanitizer\|SUMMARY:\|C0[34]" /verif/target/fuzz-replay.log | cut -c1-300 | sed 's/^/  /'
    return 1
  fi
  echo "replay passed: property=$id target=$target"
  return 0
}

# merge_evidence <property> <json object to merge into coverage> <extra violations>
merge_evidence() {
  python3 - "$1" "$2" "$3" <<'PY'
import json,sys
id,extra,viol=sys.argv[1],json.loads(sys.argv[2]),int(sys.argv[3])
p=f"/verif/evidence/{id}.json"
try:
    d=json.load(open(p))
except Exception:
    sys.exit(0)
for k,v in extra.items():
    d["coverage"][k]=v
f=extra.get("fuzz") or {}
add=sum(int(t.get("executions",0)) for t in f.values() if isinstance(t,dict))
d["coverage"]["evaluations"]=int(d["coverage"].get("evaluations",0))+add
d["coverage"]["fuzz_executions_included_in_evaluations"]=add
d["violations"]=int(d.get("violations",0))+viol
json.dump(d,open(p,"w"),indent=1)
PY
}
