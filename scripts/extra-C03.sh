#!/bin/bash
# C03 wrapper: deterministic harness layer (format-aware mutations), then the coverage-guided layer:
# libFuzzer + AddressSanitizer + debug assertions over decode_any / decode_struct / dict_any,
# fixed work (-runs), fresh corpus seeded by the harness (valid frames in each target's layout).
set -u
ID=C03
source /verif/scripts/common.sh
TIER="${VERIF_TIER:-quick}"
REPLAY=""
args=("$@"); for ((i=1;i<${#args[@]};i++)); do [ "${args[$i]}" = "--replay" ] && REPLAY="${args[$((i+1))]:-}"; done
if [ -n "$REPLAY" ]; then
  case "$REPLAY" in
    */fuzz-*) fuzz_replay "$ID" "$REPLAY"; exit $?;;
  esac
  run_vcheck "$@"; exit $?
fi
run_vcheck "$@"; rc=$?
[ $rc -ne 0 ] && exit $rc
rm -f /verif/target/fuzz-stats-$ID.json
fuzz_build || { echo "INCONCLUSIVE property=$ID fuzz build failed (see /verif/target/fuzz-build.log)"; exit 2; }
if [ "$TIER" = "thorough" ]; then R1=4000000; R2=3000000; R3=2000000; export VERIF_FUZZ_JOBS=${VERIF_FUZZ_JOBS:-16}; else R1=200000; R2=100000; R3=200000; fi
SEEDS=/verif/target/c03_seeds
fuzz_exec_dir "$ID" decode_any $SEEDS/extremes || exit $?
fuzz_campaign "$ID" decode_any $R1 $SEEDS/decode_any /verif/regress/C03/fuzz-decode_any || exit $?
fuzz_campaign "$ID" decode_struct $R2 /verif/regress/C03/fuzz-decode_struct || exit $?
fuzz_campaign "$ID" dict_any $R3 $SEEDS/dict_any /verif/regress/C03/fuzz-dict_any || exit $?
merge_evidence "$ID" "{\"fuzz\": $(cat /verif/target/fuzz-stats-$ID.json)}" 0
exit 0
