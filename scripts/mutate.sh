#!/bin/bash
# scripts/mutate.sh <file-relative-to-/repo> <python-regex-or-literal old> <new> -- <check command...>
# Applies ONE literal replacement (first occurrence, or Nth with MUT_NTH) to /repo, runs the command, reverts.
# For sensitivity experiments only; never leaves /repo modified.
set -u
FILE="$1"; OLD="$2"; NEW="$3"; shift 3; [ "$1" = "--" ] && shift
cd /repo || exit 2
if ! git diff --quiet; then echo "repo dirty, refusing"; exit 2; fi
python3 - "$FILE" "$OLD" "$NEW" "${MUT_NTH:-1}" <<'PY'
import sys
f,old,new,nth=sys.argv[1],sys.argv[2],sys.argv[3],int(sys.argv[4])
s=open(f).read()
idx=-1
for _ in range(nth):
    idx=s.find(old,idx+1)
    if idx<0: print("MUTATION TARGET NOT FOUND"); sys.exit(3)
s=s[:idx]+new+s[idx+len(old):]
open(f,'w').write(s)
PY
rc=$?
if [ $rc -ne 0 ]; then git checkout -- . ; exit 3; fi
git diff --stat | tail -1
# evidence written while /repo is modified describes the mutant, not the tree: keep the real files
EVBAK=$(mktemp -d /verif/target/evbak.XXXXXX); cp -a /verif/evidence/. "$EVBAK"/ 2>/dev/null
( cd /verif && "$@" )
rc=$?
git checkout -- .
cp -a "$EVBAK"/. /verif/evidence/ 2>/dev/null; rm -rf "$EVBAK"
echo "mutation run exit=$rc"
exit $rc
