#!/bin/bash
# scripts/seed_regress.sh [ids...]
# Re-runs the property's own quick check against every stored seeded change (seeded/<id>/patch.diff):
# applies it to /repo, runs ./check, restores /repo straight afterwards. Prints one line per change;
# exit 0 iff every change is still caught (rc=1 with a VIOLATION line). For development only -
# never run while other checks use /repo.
set -u
cd /repo || exit 2
git diff --quiet || { echo "/repo dirty, refusing"; exit 2; }
IDS=("$@"); [ ${#IDS[@]} -eq 0 ] && IDS=($(ls /verif/seeded))
EVBAK=$(mktemp -d /verif/target/evbak.XXXXXX); cp -a /verif/evidence/. "$EVBAK"/ 2>/dev/null
missed=0
for id in "${IDS[@]}"; do
  p=/verif/seeded/$id/patch.diff; [ -f "$p" ] || continue
  prop=${id%%_*}
  git apply "$p" || { echo "$id patch does not apply"; missed=$((missed+1)); continue; }
  t0=$(date +%s)
  out=$(cd /verif && ./check $prop --tier quick 2>&1); rc=$?
  t1=$(date +%s)
  git checkout -- .
  line=$(echo "$out" | grep -E "^  stage=|^  kind=" | head -1 | cut -c1-160)
  if [ $rc -eq 1 ] && echo "$out" | grep -q "^VIOLATION property=$prop "; then echo "$id caught ($((t1-t0))s) $line"; else echo "$id MISSED rc=$rc ($((t1-t0))s)"; missed=$((missed+1)); fi
done
cp -a "$EVBAK"/. /verif/evidence/ 2>/dev/null; rm -rf "$EVBAK"
echo "missed=$missed"
[ $missed -eq 0 ]
