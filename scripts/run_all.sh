#!/bin/bash
# runs every check (default: quick) and prints one line per property; VERIF_SEED honoured
TIER="${1:-quick}"
cd /verif
for i in $(seq -w 1 20); do
  id=C$i
  t0=$(date +%s)
  out=$(./check $id --tier $TIER 2>&1); rc=$?
  t1=$(date +%s)
  echo "$id rc=$rc $((t1-t0))s $(echo "$out" | grep -E "^property=|^VIOLATION|^INCONCLUSIVE|^KNOWN-FINDING" | head -3 | tr '\n' ' ' | cut -c1-260)"
done
