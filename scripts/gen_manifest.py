#!/usr/bin/env python3
"""Regenerates /verif/MANIFEST.json. Edit CLAIMED / NOT_APPLICABLE here."""
import json, subprocess

HOOK_COMMITS = subprocess.run(["git", "-C", "/repo", "log", "--format=%H %s"], capture_output=True, text=True).stdout.splitlines()
hooks = [l.split()[0] for l in HOOK_COMMITS if " verif hooks" in l]

LEVEL_NOTE = ("Trusted base: libzstd 1.5.7 (arbiter of validity), the RFC 8878 transcription in the harness "
              "(self-tested against libzstd's source tables and behaviour every run), rustc/LLVM, proptest. "
              "Generated-input search never shows absence.")

CLAIMED = {
 "C01": ("differential: ruzstd vs original data / spec executor, 4 drivers, frames from 3 generated sources (reference compressor, reference entropy stage on perturbed parses, spec-directed synthesizer arbitrated by libzstd)", "5 C01"),
 "C03": ("fuzzing: format-aware mutational PBT over valid frames (walker field map) through every entry point, on new and on warm decoders, with reuse check afterwards; a hostile-dictionary stage (dictionaries that parse but lie, used by frames built against the honest dictionary); a format-extremes stage (constructed blocks carrying the most sequences / largest lengths the format can express, under a heap ceiling, also executed by the instrumented binary with overflow checks) + coverage-guided libFuzzer/ASan targets (bytes, arbitrary-decoded frame specs through the synthesizer, hostile dictionaries); a case deadline turns non-termination into a violation", "5 C03, 13.1"),
 "C04": ("model-based stateful PBT: generated op lists on RingBuffer / DecodeBuffer vs VecDeque model under a canary+poison allocator (an inspecting reader notices never-written bytes handed to it) and, twice more, with every buffer flush against an inaccessible page at its end / start (out-of-bounds reads and writes kill the process; the launcher localises the case); thorough adds ASan (libFuzzer targets) and Miri replays of the same op lists", "5 C04"),
 "C05": ("PBT with counting allocator and closed-form bounds over every decode strategy on new and warm decoders; synthesized over-long blocks (matches, 20-bit literals, unreferenced literals; RLE and Raw blocks with a Block_Size up to 2^21 - 1) arbitrated by libzstd; arbitrary configured limits around exactly chosen windows (held bytes <= limit + request + one block); long frames (hundreds of blocks, tens to hundreds of windows of output: peak heap independent of the output length)", "5 C05"),
 "C06": ("stateful PBT: generated driver programs (decode/drain schedules, sinks, source fragmentation) against ground-truth content", "5 C06"),
 "C07": ("differential stateful PBT: reused vs fresh decoder after generated histories (valid, dictionary, truncated, corrupted; completed, abandoned, failed), leak-sensitive probes built by patching synthesized frames, decoded in one go or block by block, optionally with a window limit set between frames", "5 C07"),
 "C09": ("PBT with reference-trained dictionaries (non-default repeat offsets, superseded editions under one id, content padded to several hundred KiB), reference compressor and dictionary-aware synthesizer; histories on one decoder; the spec walker arbitrates offsets beyond dictionary + output", "5 C09"),
 "C10": ("PBT + exhaustive prefix enumeration: multi-frame lists with faults; every strict prefix of small frames and the complete frame (alone / followed by other bytes) through four entry points on new and used decoders", "5 C10"),
 "C11": ("exhaustive enumeration of header variant (window descriptor, content size, both, window descriptor + Dictionary_ID) x limit class x limit order x history position x 11 front ends with closed-form oracle and allocation observer", "5 C11"),
 "C02": ("round-trip PBT: compressor histories (reuse, levels, fragmented sources, aborted compress() calls in between, boundary-seeking and code-histogram-shaping input families) decoded by libzstd and by this crate", "5 C02"),
 "C08": ("PBT with an independent XXH64: drain programs on the decoder, reuse histories on the compressor, libzstd verifies trailers", "5 C08"),
 "C12": ("PBT + exhaustive small family: constructive normalized distributions (incl. relatives of the predefined ones) vs spec decoding table state by state, also when built over another table in the same object; encoder tables/streams via hooks vs spec model (round trip both ways); descriptions also in a legal non-canonical serialisation (zero runs cut into pieces); histograms with many equally frequent beside many rare codes; flat code histograms through the real block compressor with the strict walker applying each table's own limit", "5 C12"),
 "C13": ("exhaustive over all 255 alphabet sizes + PBT: Kraft/prefix/canonical checks, description round trip vs spec model and decoder, 1- and 4-stream encodings of every size decoded by the specification and by the crate's section decoder, exhaustive direct weight descriptions", "5 C13"),
 "C15": ("PBT with validity predicate: independent strict frame walker over compressor output (also through drains that take only part of a write) + closed-form size bound; the built-in match finder also in other window configurations", "5 C15"),
 "C16": ("PBT over programs: a scripted Matcher replaying generated valid parses / libzstd parses and a history-keeping Matcher that knows only what is committed to it (level-dependent windows, reuse); libzstd + own decoder + walker confirm", "5 C16"),
 "C17": ("stateful PBT + exhaustive small family: validity predicate over every sequence reported by the built-in matcher across eviction/skip/reset histories", "5 C17"),
 "C18": ("differential PBT across four separately built binaries ({std,no_std} x {hash,no hash}) over a generated corpus, incl. reused compressors / decoders and the hand-written io_nostd routines on their boundaries; in hash builds the appended four bytes are checked against the checksum the build's own decoder computes", "5 C18"),
 "C19": ("PBT over the real CLI binary: generated files and names (incl. non-UTF-8) x option matrix x stale destinations x files with zero chunks x failure scenarios, libzstd as arbiter of the archive", "5 C19"),
 "C20": ("PBT with bounded work: generated sources x estimates (wrong, zero, boundary-seeking around the sampler's segment arithmetic) x sizes x reader chunking; oracle = documented size bound + termination (deadline overrun = violation)", "5 C20"),
 "C14": ("exhaustive enumeration of finite tables / header spaces (codes, sequence counts, block / frame / literals headers, RLE-mode symbols, repeat-offset machine) against RFC 8878 tables (cross-checked with libzstd source) + generated stages: sequences with offsets up to 23 bits through the real block compressor and bit writer read back by the specification walker, forbidden regenerated block sizes", "5 C14"),
}

NOT_APPLICABLE = {}

props = [json.loads(l) for l in open("/verif/properties.jsonl")]
checks = []
for p in props:
    pid = p["id"]
    if pid in CLAIMED:
        tech, ref = CLAIMED[pid]
        checks.append({
            "property_id": pid,
            "quick_cmd": f"./check {pid} --tier quick",
            "thorough_cmd": f"./check {pid} --tier thorough",
            "evidence_file": f"/verif/evidence/{pid}.json",
            "replay_cmd_template": f"./check {pid} --replay {{path}}",
            "engine": "vcheck",
            "level_claimed": {
                "category": "exploration",
                "text": "Generated-input exploration with an explicit oracle (see technique); enumerated sub-domains are complete and marked exhaustive in the evidence; everything else is 'no counterexample among N generated cases with the reported feature distribution'.",
                "design_ref": f"DESIGN.md section {ref}",
            },
            "level_note": LEVEL_NOTE,
            "technique": "property-based testing / fuzzing: " + tech,
        })
na = []
for p in props:
    if p["id"] not in CLAIMED:
        na.append({"property_id": p["id"], "reason": NOT_APPLICABLE.get(p["id"], "check under construction in this session (not yet registered); the technique applies, see DESIGN.md section 5")})

m = {
 "version": 1,
 "setup_cmd": "/verif/scripts/setup.sh",
 "hooks": {
   "guard": "cargo feature `verif_hooks` on crate ruzstd (off by default)",
   "enable": "path dependency from /verif/harness with features = [\"verif_hooks\", \"dict_builder\"]",
   "baseline_off_cmd": "cd /repo && cargo test --workspace --no-fail-fast --offline",
   "source_commits": hooks,
   "add_only": True,
 },
 "engines": [
   {"name": "vcheck", "path": "/verif/harness", "serves_properties": sorted(CLAIMED.keys()),
    "kind_free_text": "Rust binary: proptest TestRunner driven from a binary (16 logical workers, seeds from VERIF_SEED), enumerations, replay files, evidence writer; oracles: libzstd 1.5.7 via the zstd crate, RFC 8878 model (walker + synthesizer), VecDeque model, counting / canary / guard-page allocator; additional engines wrapped by scripts/extra-CNN.sh: libFuzzer+ASan targets (C03, C04 thorough), Miri (C04 thorough), four feature builds (C18), the real CLI binary (C19)"},
 ],
 "checks": checks,
 "not_applicable": na,
 "notes": "Exit codes: 0 held, 1 VIOLATION line printed, 2 inconclusive/machinery. KNOWN_FINDINGS.txt lists fixed: and known: findings; regress/<id>/*.json are replayed first in every run.",
}
json.dump(m, open("/verif/MANIFEST.json", "w"), indent=1)
print("claimed:", sorted(CLAIMED.keys()), "not_applicable:", len(na))
