#!/bin/bash
# scripts/seed_eval.sh <ID> [tag] [checks...]
# Confirms a sub-agent's seeded change in ITS scratch worktree (/tmp/seed_<ID>[_tag]) and runs the
# given checks (default: the property's own) against it by applying the patch to /repo and
# reverting straight afterwards. Results go to /verif/seeded/<ID>[_tag]/.
set -u
ID="$1"; shift
TAG=""; if [ "${1:-}" != "" ] && [[ "$1" != C* ]]; then TAG="_$1"; shift; fi
CHECKS=("$@"); [ ${#CHECKS[@]} -eq 0 ] && CHECKS=("$ID")
WT=/tmp/seed_${ID}${TAG}; OUT=/tmp/seed_${ID}${TAG}_out; DEST=/verif/seeded/${ID}${TAG}
export CARGO_NET_OFFLINE=true
[ -f "$OUT/patch.diff" ] || { echo "no patch in $OUT"; exit 2; }
mkdir -p "$DEST"; cp "$OUT/patch.diff" "$DEST/"; cp "$OUT"/seed_demo.rs "$OUT"/demo.sh "$OUT"/demo_cmd.txt "$DEST/" 2>/dev/null; cp "$OUT/README.md" "$DEST/agent_README.md" 2>/dev/null
cd "$WT" || exit 2
# demo location: integration test or in-crate module
DEMO_CMD="cargo test --offline -p ruzstd --test seed_demo"
[ -f ruzstd/tests/seed_demo.rs ] || DEMO_CMD="cargo test --offline -p ruzstd --lib seed_demo"
[ -f "$OUT/demo_cmd.txt" ] && DEMO_CMD=$(cat "$OUT/demo_cmd.txt")
echo "== [$ID$TAG] confirm in $WT (demo: $DEMO_CMD)"
# state: patch applied (agent left it so). 1) existing suite with the patch (demo excluded)
git stash -q -u -- ruzstd/tests/seed_demo.rs 2>/dev/null
if git apply --check -R "$OUT/patch.diff" 2>/dev/null; then :; else git apply "$OUT/patch.diff" 2>/dev/null; fi
suite=$(cargo test --workspace --offline -- --skip seed_demo 2>&1 | grep -E "^test result" | grep -v "seed_demo" )
suite_fail=$(echo "$suite" | grep -v " 0 failed" | wc -l)
git stash pop -q 2>/dev/null
echo "   existing suite with patch: $(echo "$suite" | awk '{p+=$4; f+=$6} END{print p" passed, "f" failed"}')"
o=$(bash -c "$DEMO_CMD" 2>&1); rc=$?; with="exit=$rc $(echo "$o" | grep -E "^test result" | tail -1)"
git apply -R "$OUT/patch.diff"
o=$(bash -c "$DEMO_CMD" 2>&1); rc=$?; without="exit=$rc $(echo "$o" | grep -E "^test result" | tail -1)"
git apply "$OUT/patch.diff"
echo "   demo with patch:    $with"
echo "   demo without patch: $without"
# 2) our checks against it
cd /repo && git diff --quiet || { echo "/repo dirty"; exit 2; }
git apply "$OUT/patch.diff" || { echo "patch does not apply to /repo"; exit 2; }
# evidence written while /repo carries the seeded change describes the mutant: keep the real files
EVBAK=$(mktemp -d /verif/target/evbak.XXXXXX); cp -a /verif/evidence/. "$EVBAK"/ 2>/dev/null
RES=""
for c in "${CHECKS[@]}"; do
  t0=$(date +%s)
  out=$(cd /verif && ./check $c --tier ${SEED_TIER:-quick} 2>&1); rc=$?
  t1=$(date +%s)
  line=$(echo "$out" | grep -E "^VIOLATION|^  stage=|^  kind=|^INCONCLUSIVE" | head -2 | tr '\n' ' ' | cut -c1-400)
  echo "   check $c: rc=$rc ($((t1-t0))s) $line"
  RES="$RES{\"check\":\"$c\",\"tier\":\"${SEED_TIER:-quick}\",\"exit\":$rc,\"seconds\":$((t1-t0)),\"line\":$(python3 -c 'import json,sys; print(json.dumps(sys.argv[1]))' "$line")},"
done
git checkout -- . ; git status --short | head -2
cp -a "$EVBAK"/. /verif/evidence/ 2>/dev/null; rm -rf "$EVBAK"
python3 - "$DEST" "$ID" "$with" "$without" "$suite_fail" "[${RES%,}]" <<'PY'
import json,sys,os
dest,id,w,wo,sf,res=sys.argv[1:]
meta_path=os.path.join(dest,"meta.json")
meta=json.load(open(meta_path)) if os.path.exists(meta_path) else {}
meta.update({"property":id,"existing_suite_failures_with_patch":int(sf),"demo_with_patch":w,"demo_without_patch":wo})
meta.setdefault("runs",[]).extend(json.loads(res))
json.dump(meta,open(meta_path,"w"),indent=1)
PY
