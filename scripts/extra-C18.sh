#!/bin/bash
# C18 wrapper: build the driver four times ({std,no_std} x {hash,no hash}) from /repo's working tree,
# then let the harness generate the corpus, run the four binaries and compare their outputs.
set -u
ID=C18
source /verif/scripts/common.sh
for cfg in "std,hash" "std" "hash" ""; do
  name=$(echo "${cfg:-none}" | tr ',' '_')
  ( cd /verif/c18 && CARGO_TARGET_DIR=/verif/target/c18-$name cargo build --release --offline --no-default-features --features "$cfg" >/verif/target/c18-build-$name.log 2>&1 )
  if [ $? -ne 0 ]; then
    echo "INCONCLUSIVE property=$ID driver build ($name) failed (see /verif/target/c18-build-$name.log)"
    grep -E "^error" -A6 /verif/target/c18-build-$name.log | head -20
    exit 2
  fi
done
run_vcheck "$@"
exit $?
