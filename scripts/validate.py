#!/usr/bin/env python3
"""Validates MANIFEST.json and evidence/*.json against the schemas in /root/.vp (run with python3-vt)."""
import json, glob, sys
import jsonschema
bad = 0
def check(path, schema):
    global bad
    try:
        jsonschema.validate(json.load(open(path)), json.load(open(schema)))
    except Exception as e:
        bad += 1
        print("INVALID", path, str(e)[:300])
check('/verif/MANIFEST.json', '/root/.vp/MANIFEST.schema.json')
m = json.load(open('/verif/MANIFEST.json'))
for f in sorted(glob.glob('/verif/evidence/*.json')):
    check(f, '/root/.vp/EVIDENCE.schema.json')
    e = json.load(open(f))
    v = e.get('violations') or e.get('coverage', {}).get('violations')
    print(f.split('/')[-1], 'tier', e.get('tier'), 'evals', e.get('coverage', {}).get('evaluations'), 'violations', len(e.get('violations', [])) if isinstance(e.get('violations'), list) else e.get('violations'))
print("invalid:", bad)
sys.exit(1 if bad else 0)
