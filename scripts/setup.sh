#!/bin/bash
# MANIFEST.setup_cmd: build everything the quick checks need, offline, from files on disk.
set -u
export CARGO_NET_OFFLINE=true
mkdir -p /verif/target /verif/evidence /verif/replays
( cd /verif/harness && CARGO_TARGET_DIR=/verif/target cargo build --release --offline ) || exit 1
source /verif/scripts/common.sh
fuzz_build || { echo "fuzz build failed"; tail -20 /verif/target/fuzz-build.log; exit 1; }
for cfg in "std,hash" "std" "hash" ""; do
  name=$(echo "${cfg:-none}" | tr ',' '_')
  ( cd /verif/c18 && CARGO_TARGET_DIR=/verif/target/c18-$name cargo build --release --offline --no-default-features --features "$cfg" ) || exit 1
done
( cd /repo && CARGO_TARGET_DIR=/verif/target/cli cargo build --release -p ruzstd-cli --offline ) || exit 1
echo "setup complete"
