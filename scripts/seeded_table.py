#!/usr/bin/env python3
"""Rewrites the seeded-changes table in DESIGN.md (between the seeded-table markers) from seeded/*/meta.json."""
import json, glob, os, re
rows = []
for d in sorted(glob.glob('/verif/seeded/*/meta.json')):
    m = json.load(open(d))
    sid = os.path.basename(os.path.dirname(d))
    def c(s): return (s or '').replace('|', '/').replace('\n', ' ')
    rows.append(f"| {sid} | {c(m.get('breaks'))} | {c(m.get('needs'))} | {c(m.get('caught_by'))} |")
tab = "| seed | what it breaks | what it needs to manifest | result |\n|------|----------------|--------------------------|--------|\n" + "\n".join(rows)
p = '/verif/DESIGN.md'
s = open(p).read()
b, e = '<!-- seeded-table:begin -->', '<!-- seeded-table:end -->'
assert b in s and e in s
s = s[:s.index(b) + len(b)] + "\n" + tab + "\n" + s[s.index(e):]
open(p, 'w').write(s)
print(len(rows), "rows")
