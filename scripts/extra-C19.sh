#!/bin/bash
# C19 wrapper: build the real ruzstd-cli from /repo's working tree, then run the harness against it.
set -u
ID=C19
source /verif/scripts/common.sh
( cd /repo && CARGO_TARGET_DIR=/verif/target/cli cargo build --release -p ruzstd-cli --offline >/verif/target/cli-build.log 2>&1 )
if [ $? -ne 0 ]; then
  echo "INCONCLUSIVE property=$ID CLI build failed (see /verif/target/cli-build.log)"; grep -E "^error" -A6 /verif/target/cli-build.log | head -20; exit 2
fi
run_vcheck "$@"
exit $?
