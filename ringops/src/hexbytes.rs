//! hex (de)serialisation of byte vectors in replay files

use serde::{Deserialize, Deserializer, Serializer};
pub fn serialize<S: Serializer>(b: &Vec<u8>, s: S) -> Result<S::Ok, S::Error> {
    let mut out = String::with_capacity(b.len() * 2);
    for x in b {
        out.push(char::from_digit((x >> 4) as u32, 16).unwrap());
        out.push(char::from_digit((x & 15) as u32, 16).unwrap());
    }
    s.serialize_str(&out)
}
pub fn deserialize<'de, D: Deserializer<'de>>(d: D) -> Result<Vec<u8>, D::Error> {
    let s = String::deserialize(d)?;
    let b = s.as_bytes();
    let mut out = Vec::with_capacity(b.len() / 2);
    for c in b.chunks(2) {
        let h = (c[0] as char).to_digit(16).unwrap_or(0) as u8;
        let l = (c.get(1).map(|x| *x as char).unwrap_or('0')).to_digit(16).unwrap_or(0) as u8;
        out.push((h << 4) | l);
    }
    Ok(out)
}
