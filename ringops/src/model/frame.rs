//! Strict frame walker / model decoder written from RFC 8878.

use super::bits::BackReader;
use super::codes::*;
use super::fse::{self, DEntry, FseDec, NCount};
use super::huf::{self, HufTable};
use super::xxh64;

pub const MAGIC: u32 = 0xFD2F_B528;
pub const DICT_MAGIC: u32 = 0xEC30_A437;
pub const BLOCK_MAX: usize = 128 * 1024;
pub const WINDOW_MAX: u64 = (1 << 41) + 7 * (1 << 38);

#[derive(Clone, Debug, Default)]
pub struct Header {
    pub descriptor: u8,
    pub single_segment: bool,
    pub checksum_flag: bool,
    pub window_descriptor: Option<u8>,
    pub window_size: u64,
    pub fcs: Option<u64>,
    pub fcs_bytes: u8,
    pub dict_id: Option<u32>,
    pub dict_id_bytes: u8,
    pub reserved_bit: bool,
    pub header_len: usize,
}

#[derive(Clone, Debug)]
pub struct SeqRec {
    pub ll: u32,
    pub ml: u32,
    pub of_value: u32,
    pub ll_code: u8,
    pub ml_code: u8,
    pub of_code: u8,
    pub offset: u32,
    /// number of bytes of this match taken from dictionary content
    pub from_dict: u32,
}

#[derive(Clone, Debug, Default)]
pub struct LitInfo {
    /// 0 raw, 1 rle, 2 compressed, 3 treeless
    pub ltype: u8,
    pub size_format: u8,
    pub streams: u8,
    pub regen: usize,
    pub comp: usize,
    pub header_len: usize,
    pub fse_weights: bool,
    pub tree_desc_len: usize,
    pub max_bits: u8,
}

#[derive(Clone, Debug, Default)]
pub struct SeqInfo {
    pub nseq: usize,
    pub count_bytes: u8,
    /// ll, of, ml modes (0 predefined, 1 rle, 2 fse, 3 repeat)
    pub modes: [u8; 3],
    pub logs: [u8; 3],
    pub reserved_bits: u8,
    pub seqs: Vec<SeqRec>,
}

#[derive(Clone, Debug, Default)]
pub struct Block {
    /// 0 raw 1 rle 2 compressed
    pub btype: u8,
    pub last: bool,
    pub stored: usize,
    pub regen: usize,
    pub lit: Option<LitInfo>,
    pub seq: Option<SeqInfo>,
}

#[derive(Clone, Debug, Default)]
pub struct FrameInfo {
    pub header: Header,
    pub blocks: Vec<Block>,
    pub content: Vec<u8>,
    pub checksum: Option<u32>,
    pub frame_len: usize,
    pub max_offset: u64,
    /// a match offset exceeded the window size (invalid per spec unless reaching a dictionary)
    pub offset_beyond_window: bool,
    pub uses_dict_content: bool,
    pub dict_after_window: bool,
    pub first_block_uses_dict_tables: bool,
}

#[derive(Clone, Debug)]
pub struct TableState {
    pub rle: Option<u8>,
    pub nc: Option<NCount>,
    pub table: Vec<DEntry>,
    pub log: u8,
}

impl TableState {
    fn none() -> Self {
        TableState {
            rle: None,
            nc: None,
            table: vec![],
            log: 0,
        }
    }
    pub fn from_nc(nc: NCount) -> Self {
        let table = fse::build_dtable(&nc);
        TableState {
            rle: None,
            log: nc.log,
            nc: Some(nc),
            table,
        }
    }
    pub fn is_set(&self) -> bool {
        self.rle.is_some() || !self.table.is_empty()
    }
}

#[derive(Clone, Debug)]
pub struct Dict {
    pub id: u32,
    pub huf: Option<HufTable>,
    pub ll: Option<NCount>,
    pub of: Option<NCount>,
    pub ml: Option<NCount>,
    pub rep: [u32; 3],
    pub content: Vec<u8>,
    pub entropy_len: usize,
}

/// Parse a dictionary: formatted (magic) or raw content.
pub fn parse_dict(raw: &[u8]) -> Result<Dict, String> {
    if raw.len() < 8 || u32::from_le_bytes(raw[..4].try_into().unwrap()) != DICT_MAGIC {
        return Ok(Dict {
            id: 0,
            huf: None,
            ll: None,
            of: None,
            ml: None,
            rep: [1, 4, 8],
            content: raw.to_vec(),
            entropy_len: 0,
        });
    }
    let id = u32::from_le_bytes(raw[4..8].try_into().unwrap());
    let mut p = 8;
    let (huf, used, _) = huf::read_description(&raw[p..])?;
    p += used;
    let (of, used) = fse::read_ncount(&raw[p..], OF_MAX_LOG, MAX_OF_CODE as usize)?;
    p += used;
    let (ml, used) = fse::read_ncount(&raw[p..], ML_MAX_LOG, MAX_ML_CODE as usize)?;
    p += used;
    let (ll, used) = fse::read_ncount(&raw[p..], LL_MAX_LOG, MAX_LL_CODE as usize)?;
    p += used;
    if raw.len() < p + 12 {
        return Err("dictionary: truncated repeat offsets".into());
    }
    let rep = [
        u32::from_le_bytes(raw[p..p + 4].try_into().unwrap()),
        u32::from_le_bytes(raw[p + 4..p + 8].try_into().unwrap()),
        u32::from_le_bytes(raw[p + 8..p + 12].try_into().unwrap()),
    ];
    p += 12;
    Ok(Dict {
        id,
        huf: Some(huf),
        ll: Some(ll),
        of: Some(of),
        ml: Some(ml),
        rep,
        content: raw[p..].to_vec(),
        entropy_len: p,
    })
}

pub fn window_from_descriptor(wd: u8) -> u64 {
    let exp = (wd >> 3) as u64;
    let mant = (wd & 7) as u64;
    let base = 1u64 << (10 + exp);
    base + (base / 8) * mant
}

/// Parse a frame header (after checking the magic). Err for truncated / wrong magic.
pub fn parse_header(src: &[u8]) -> Result<Header, String> {
    if src.len() < 5 {
        return Err("header: truncated".into());
    }
    if u32::from_le_bytes(src[..4].try_into().unwrap()) != MAGIC {
        return Err("header: bad magic".into());
    }
    let d = src[4];
    let mut h = Header {
        descriptor: d,
        single_segment: d & 0x20 != 0,
        checksum_flag: d & 4 != 0,
        reserved_bit: d & 8 != 0,
        ..Default::default()
    };
    let mut p = 5;
    if !h.single_segment {
        let wd = *src.get(p).ok_or("header: truncated window descriptor")?;
        h.window_descriptor = Some(wd);
        h.window_size = window_from_descriptor(wd);
        p += 1;
    }
    let did_bytes = [0usize, 1, 2, 4][(d & 3) as usize];
    h.dict_id_bytes = did_bytes as u8;
    if did_bytes > 0 {
        if src.len() < p + did_bytes {
            return Err("header: truncated dictionary id".into());
        }
        let mut v = 0u32;
        for i in 0..did_bytes {
            v |= (src[p + i] as u32) << (8 * i);
        }
        // a zero value means "no dictionary id" (RFC 8878 3.1.1.1.3)
        h.dict_id = if v == 0 { None } else { Some(v) };
        p += did_bytes;
    }
    let fcs_flag = d >> 6;
    let fcs_bytes = match fcs_flag {
        0 => {
            if h.single_segment {
                1
            } else {
                0
            }
        }
        1 => 2,
        2 => 4,
        _ => 8,
    };
    h.fcs_bytes = fcs_bytes as u8;
    if fcs_bytes > 0 {
        if src.len() < p + fcs_bytes {
            return Err("header: truncated content size".into());
        }
        let mut v = 0u64;
        for i in 0..fcs_bytes {
            v |= (src[p + i] as u64) << (8 * i);
        }
        if fcs_bytes == 2 {
            v += 256;
        }
        h.fcs = Some(v);
        p += fcs_bytes;
    }
    if h.single_segment {
        h.window_size = h.fcs.unwrap();
    }
    h.header_len = p;
    Ok(h)
}

pub struct WalkOpts<'a> {
    pub dict: Option<&'a Dict>,
    /// reject reserved bits and other things the format reserves
    pub strict_reserved: bool,
    /// cap on decoded content (walker refuses to go on beyond it)
    pub max_content: usize,
}

impl Default for WalkOpts<'_> {
    fn default() -> Self {
        WalkOpts {
            dict: None,
            strict_reserved: true,
            max_content: 1 << 30,
        }
    }
}

struct EntropyState {
    huf: Option<HufTable>,
    ll: TableState,
    of: TableState,
    ml: TableState,
    rep: [u32; 3],
}

/// Walk one frame starting at src[0]. Returns its full description.
pub fn walk(src: &[u8], opts: &WalkOpts) -> Result<FrameInfo, String> {
    let header = parse_header(src)?;
    if opts.strict_reserved && header.reserved_bit {
        return Err("header: reserved bit set".into());
    }
    if !header.single_segment && header.window_size > WINDOW_MAX {
        return Err("header: window too large".into());
    }
    let mut info = FrameInfo {
        header: header.clone(),
        ..Default::default()
    };
    let dict = opts.dict;
    let dict_content: &[u8] = dict.map(|d| d.content.as_slice()).unwrap_or(&[]);
    let mut st = EntropyState {
        huf: dict.and_then(|d| d.huf.clone()),
        ll: dict
            .and_then(|d| d.ll.clone())
            .map(TableState::from_nc)
            .unwrap_or_else(TableState::none),
        of: dict
            .and_then(|d| d.of.clone())
            .map(TableState::from_nc)
            .unwrap_or_else(TableState::none),
        ml: dict
            .and_then(|d| d.ml.clone())
            .map(TableState::from_nc)
            .unwrap_or_else(TableState::none),
        rep: dict.map(|d| d.rep).unwrap_or([1, 4, 8]),
    };
    let block_max = BLOCK_MAX.min(header.window_size.max(1).min(usize::MAX as u64) as usize);
    let _ = block_max; // Block_Maximum_Size = min(window, 128 KiB); recorded by callers via header
    let mut p = header.header_len;
    let mut out: Vec<u8> = vec![];
    loop {
        if src.len() < p + 3 {
            return Err("block header: truncated".into());
        }
        let bh = src[p] as u32 | (src[p + 1] as u32) << 8 | (src[p + 2] as u32) << 16;
        p += 3;
        let last = bh & 1 != 0;
        let btype = ((bh >> 1) & 3) as u8;
        let bsize = (bh >> 3) as usize;
        if btype == 3 {
            return Err("block: reserved type".into());
        }
        if bsize > BLOCK_MAX {
            return Err(format!("block: size {bsize} > 128 KiB"));
        }
        let mut blk = Block {
            btype,
            last,
            ..Default::default()
        };
        match btype {
            0 => {
                if src.len() < p + bsize {
                    return Err("raw block: truncated".into());
                }
                out.extend_from_slice(&src[p..p + bsize]);
                p += bsize;
                blk.stored = bsize;
                blk.regen = bsize;
            }
            1 => {
                if src.len() < p + 1 {
                    return Err("rle block: truncated".into());
                }
                out.resize(out.len() + bsize, src[p]);
                p += 1;
                blk.stored = 1;
                blk.regen = bsize;
            }
            _ => {
                if src.len() < p + bsize {
                    return Err("compressed block: truncated".into());
                }
                if bsize < 2 {
                    // a compressed block needs at least a literals header and a sequence count
                    return Err("compressed block: too small".into());
                }
                let before = out.len();
                let first_block = info.blocks.is_empty();
                decode_compressed_block(
                    &src[p..p + bsize],
                    &mut st,
                    &mut out,
                    dict_content,
                    &header,
                    &mut blk,
                    &mut info,
                    opts,
                    first_block && dict.is_some(),
                )?;
                p += bsize;
                blk.stored = bsize;
                blk.regen = out.len() - before;
                if blk.regen > BLOCK_MAX {
                    return Err(format!("compressed block regenerates {} > 128 KiB", blk.regen));
                }
            }
        }
        info.blocks.push(blk);
        if out.len() > opts.max_content {
            return Err("walker: content cap exceeded".into());
        }
        if last {
            break;
        }
    }
    if header.checksum_flag {
        if src.len() < p + 4 {
            return Err("checksum: truncated".into());
        }
        let c = u32::from_le_bytes(src[p..p + 4].try_into().unwrap());
        p += 4;
        info.checksum = Some(c);
        let want = xxh64::checksum32(&out);
        if c != want {
            return Err(format!("checksum mismatch: stored {c:#x} computed {want:#x}"));
        }
    }
    if let Some(fcs) = header.fcs {
        if fcs != out.len() as u64 {
            return Err(format!("content size {} != declared {}", out.len(), fcs));
        }
    }
    info.frame_len = p;
    info.content = out;
    Ok(info)
}

#[allow(clippy::too_many_arguments)]
fn decode_compressed_block(
    b: &[u8],
    st: &mut EntropyState,
    out: &mut Vec<u8>,
    dict_content: &[u8],
    header: &Header,
    blk: &mut Block,
    info: &mut FrameInfo,
    opts: &WalkOpts,
    first_with_dict: bool,
) -> Result<(), String> {
    // ---- literals section
    let b0 = b[0];
    let ltype = b0 & 3;
    let sf = (b0 >> 2) & 3;
    let mut li = LitInfo {
        ltype,
        size_format: sf,
        ..Default::default()
    };
    let need = |n: usize| -> Result<(), String> {
        if b.len() < n {
            Err("literals header: truncated".into())
        } else {
            Ok(())
        }
    };
    let mut literals: Vec<u8> = vec![];
    let lit_end;
    if ltype < 2 {
        let (hl, regen) = match sf {
            0 | 2 => (1, (b0 >> 3) as usize),
            1 => {
                need(2)?;
                (2, ((b0 >> 4) as usize) | ((b[1] as usize) << 4))
            }
            _ => {
                need(3)?;
                (3, ((b0 >> 4) as usize) | ((b[1] as usize) << 4) | ((b[2] as usize) << 12))
            }
        };
        li.header_len = hl;
        li.regen = regen;
        li.streams = 0;
        if regen > BLOCK_MAX {
            return Err("literals: regenerated size > 128 KiB".into());
        }
        if ltype == 0 {
            if b.len() < hl + regen {
                return Err("raw literals: truncated".into());
            }
            literals.extend_from_slice(&b[hl..hl + regen]);
            li.comp = regen;
            lit_end = hl + regen;
        } else {
            if b.len() < hl + 1 {
                return Err("rle literals: truncated".into());
            }
            literals.resize(regen, b[hl]);
            li.comp = 1;
            lit_end = hl + 1;
        }
    } else {
        let (hl, regen, comp, streams) = match sf {
            0 | 1 => {
                need(3)?;
                let v = b0 as usize | (b[1] as usize) << 8 | (b[2] as usize) << 16;
                (3, (v >> 4) & 0x3FF, (v >> 14) & 0x3FF, if sf == 0 { 1 } else { 4 })
            }
            2 => {
                need(4)?;
                let v = b0 as usize | (b[1] as usize) << 8 | (b[2] as usize) << 16 | (b[3] as usize) << 24;
                (4, (v >> 4) & 0x3FFF, (v >> 18) & 0x3FFF, 4)
            }
            _ => {
                need(5)?;
                let v = b0 as u64
                    | (b[1] as u64) << 8
                    | (b[2] as u64) << 16
                    | (b[3] as u64) << 24
                    | (b[4] as u64) << 32;
                (5, ((v >> 4) & 0x3FFFF) as usize, ((v >> 22) & 0x3FFFF) as usize, 4)
            }
        };
        li.header_len = hl;
        li.regen = regen;
        li.comp = comp;
        li.streams = streams;
        if regen > BLOCK_MAX {
            return Err("literals: regenerated size > 128 KiB".into());
        }
        if b.len() < hl + comp {
            return Err("compressed literals: truncated".into());
        }
        let body = &b[hl..hl + comp];
        let mut q = 0;
        if ltype == 2 {
            let (t, used, was_fse) = huf::read_description(body)?;
            li.fse_weights = was_fse;
            li.tree_desc_len = used;
            st.huf = Some(t);
            q = used;
        } else if st.huf.is_none() {
            return Err("treeless literals without a previous Huffman table".into());
        } else if first_with_dict {
            info.first_block_uses_dict_tables = true;
        }
        let t = st.huf.as_ref().unwrap();
        li.max_bits = t.max_bits;
        let streams_src = &body[q..];
        if streams == 1 {
            huf::decode_stream(t, streams_src, &mut literals, regen)?;
        } else {
            if streams_src.len() < 6 {
                return Err("literals: truncated jump table".into());
            }
            let s1 = streams_src[0] as usize | (streams_src[1] as usize) << 8;
            let s2 = streams_src[2] as usize | (streams_src[3] as usize) << 8;
            let s3 = streams_src[4] as usize | (streams_src[5] as usize) << 8;
            let rest = &streams_src[6..];
            if s1 + s2 + s3 > rest.len() {
                return Err("literals: jump table exceeds section".into());
            }
            let per = regen.div_ceil(4);
            let bounds = [0, s1, s1 + s2, s1 + s2 + s3, rest.len()];
            for i in 0..4 {
                let before = literals.len();
                if bounds[i + 1] < bounds[i] || bounds[i + 1] > rest.len() {
                    return Err("literals: bad stream bounds".into());
                }
                huf::decode_stream(t, &rest[bounds[i]..bounds[i + 1]], &mut literals, regen)?;
                let got = literals.len() - before;
                let want = if i < 3 { per } else { regen.saturating_sub(3 * per) };
                if got != want {
                    return Err(format!("literals: stream {i} regenerates {got}, expected {want}"));
                }
            }
        }
        if literals.len() != regen {
            return Err(format!(
                "literals: regenerated {} != declared {}",
                literals.len(),
                regen
            ));
        }
        lit_end = hl + comp;
    }
    blk.lit = Some(li);

    // ---- sequences section
    let s = &b[lit_end..];
    if s.is_empty() {
        return Err("sequences: missing count".into());
    }
    let (nseq, cb) = match s[0] {
        0 => (0usize, 1usize),
        1..=127 => (s[0] as usize, 1),
        128..=254 => {
            if s.len() < 2 {
                return Err("sequences: truncated count".into());
            }
            (((s[0] as usize - 128) << 8) + s[1] as usize, 2)
        }
        255 => {
            if s.len() < 3 {
                return Err("sequences: truncated count".into());
            }
            (s[1] as usize + ((s[2] as usize) << 8) + 0x7F00, 3)
        }
    };
    let mut si = SeqInfo {
        nseq,
        count_bytes: cb as u8,
        ..Default::default()
    };
    if nseq == 0 {
        if s.len() != cb {
            return Err("sequences: bytes after a zero count".into());
        }
        out.extend_from_slice(&literals);
        blk.seq = Some(si);
        return Ok(());
    }
    if s.len() < cb + 1 {
        return Err("sequences: missing modes byte".into());
    }
    let modes = s[cb];
    si.modes = [modes >> 6, (modes >> 4) & 3, (modes >> 2) & 3];
    si.reserved_bits = modes & 3;
    if opts.strict_reserved && si.reserved_bits != 0 {
        return Err("sequences: reserved mode bits set".into());
    }
    let mut q = cb + 1;
    // table updates in order LL, OF, ML
    for (i, (max_log, max_sym, def_log, def)) in [
        (LL_MAX_LOG, MAX_LL_CODE, LL_DEFAULT_LOG, &LL_DEFAULT[..]),
        (OF_MAX_LOG, MAX_OF_CODE, OF_DEFAULT_LOG, &OF_DEFAULT[..]),
        (ML_MAX_LOG, MAX_ML_CODE, ML_DEFAULT_LOG, &ML_DEFAULT[..]),
    ]
    .into_iter()
    .enumerate()
    {
        let slot = match i {
            0 => &mut st.ll,
            1 => &mut st.of,
            _ => &mut st.ml,
        };
        match si.modes[i] {
            0 => {
                *slot = TableState::from_nc(NCount {
                    log: def_log,
                    probs: def.to_vec(),
                });
            }
            1 => {
                let sym = *s.get(q).ok_or("sequences: truncated rle symbol")?;
                q += 1;
                if sym > max_sym {
                    return Err(format!("sequences: rle symbol {sym} out of range"));
                }
                *slot = TableState {
                    rle: Some(sym),
                    nc: None,
                    table: vec![],
                    log: 0,
                };
            }
            2 => {
                let (nc, used) = fse::read_ncount(&s[q..], max_log, max_sym as usize)?;
                q += used;
                *slot = TableState::from_nc(nc);
            }
            _ => {
                if !slot.is_set() {
                    return Err("sequences: repeat mode without a previous table".into());
                }
                if first_with_dict {
                    info.first_block_uses_dict_tables = true;
                }
            }
        }
        si.logs[i] = slot.log;
    }
    let stream = &s[q..];
    let mut r = BackReader::new(stream).map_err(|e| format!("sequences: {e}"))?;
    let mut dl = FseDec::new(&st.ll.table, st.ll.log);
    let mut dof = FseDec::new(&st.of.table, st.of.log);
    let mut dm = FseDec::new(&st.ml.table, st.ml.log);
    if st.ll.rle.is_none() {
        dl.init(&mut r);
    }
    if st.of.rle.is_none() {
        dof.init(&mut r);
    }
    if st.ml.rle.is_none() {
        dm.init(&mut r);
    }
    let mut lit_pos = 0usize;
    let window = header.window_size;
    for i in 0..nseq {
        let llc = st.ll.rle.unwrap_or_else(|| dl.symbol());
        let ofc = st.of.rle.unwrap_or_else(|| dof.symbol());
        let mlc = st.ml.rle.unwrap_or_else(|| dm.symbol());
        if ofc > MAX_OF_CODE || llc > MAX_LL_CODE || mlc > MAX_ML_CODE {
            return Err("sequences: code out of range".into());
        }
        let of_value = (1u64 << ofc) + r.read(ofc as u32);
        let ml = ML_TABLE[mlc as usize].0 + r.read(ML_TABLE[mlc as usize].1 as u32) as u32;
        let ll = LL_TABLE[llc as usize].0 + r.read(LL_TABLE[llc as usize].1 as u32) as u32;
        if i + 1 < nseq {
            if st.ll.rle.is_none() {
                dl.update(&mut r);
            }
            if st.ml.rle.is_none() {
                dm.update(&mut r);
            }
            if st.of.rle.is_none() {
                dof.update(&mut r);
            }
        }
        if r.remaining < 0 {
            return Err("sequences: bitstream exhausted".into());
        }
        // execute
        if lit_pos + ll as usize > literals.len() {
            return Err("sequences: literal length exceeds literals".into());
        }
        out.extend_from_slice(&literals[lit_pos..lit_pos + ll as usize]);
        lit_pos += ll as usize;
        let offset = resolve_offset(of_value as u32, ll, &mut st.rep);
        if offset == 0 {
            return Err("sequences: offset 0".into());
        }
        let total = out.len();
        let mut from_dict = 0u32;
        if offset as usize > total {
            let reach = offset as usize - total;
            if reach > dict_content.len() {
                return Err(format!(
                    "sequences: offset {offset} beyond start of data (+dictionary {})",
                    dict_content.len()
                ));
            }
            // (dictionary content is addressable only while the window still covers it; the
            // walker records but does not police that: reference-made frames never do it)
            if total as u64 > window {
                info.dict_after_window = true;
            }
            info.uses_dict_content = true;
            let dstart = dict_content.len() - reach;
            let n = (ml as usize).min(reach);
            out.extend_from_slice(&dict_content[dstart..dstart + n]);
            from_dict = n as u32;
        } else if offset as u64 > window {
            info.offset_beyond_window = true;
        }
        info.max_offset = info.max_offset.max(offset as u64);
        let rest = ml as usize - from_dict as usize;
        let start = out.len() - offset as usize;
        for k in 0..rest {
            let byte = out[start + k];
            out.push(byte);
        }
        si.seqs.push(SeqRec {
            ll,
            ml,
            of_value: of_value as u32,
            ll_code: llc,
            ml_code: mlc,
            of_code: ofc,
            offset,
            from_dict,
        });
        if out.len() > opts.max_content + BLOCK_MAX {
            return Err("walker: content cap exceeded".into());
        }
    }
    if r.remaining != 0 {
        return Err(format!("sequences: {} bits left over", r.remaining));
    }
    out.extend_from_slice(&literals[lit_pos..]);
    blk.seq = Some(si);
    Ok(())
}

/// Length of a skippable frame at src[0] if there is one: Some(Ok(total_len)) / Some(Err) if truncated.
pub fn skippable_len(src: &[u8]) -> Option<Result<usize, String>> {
    if src.len() < 4 {
        return None;
    }
    let m = u32::from_le_bytes(src[..4].try_into().unwrap());
    if !(0x184D2A50..=0x184D2A5F).contains(&m) {
        return None;
    }
    if src.len() < 8 {
        return Some(Err("skippable: truncated header".into()));
    }
    let n = u32::from_le_bytes(src[4..8].try_into().unwrap()) as usize;
    if src.len() < 8 + n {
        return Some(Err("skippable: truncated payload".into()));
    }
    Some(Ok(8 + n))
}
