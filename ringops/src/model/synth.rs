//! Frame synthesizer: the walker run backwards. A `FrameSpec` is a request; `synth` normalises it
//! into the nearest *valid* frame (so every generated / shrunk spec yields a valid frame) and
//! returns the bytes together with the content obtained by executing the spec directly.

use super::bits::FwdWriter;
use super::codes::*;
use super::frame::{Dict, TableState, BLOCK_MAX};
use super::fse::{self, FseEnc, NCount};
use super::huf::{self, HufTable};
use super::xxh64;
use crate::hexbytes;
use serde::{Deserialize, Serialize};

#[derive(Clone, Debug, Serialize, Deserialize)]
pub struct FrameSpec {
    pub single_segment: bool,
    pub window_desc: u8,
    /// requested content-size field width: 0 (absent, only without single_segment), 1, 2, 4, 8
    pub fcs_bytes: u8,
    pub checksum: bool,
    /// requested dictionary-id width 0/1/2/4 (only used when a dictionary is supplied)
    pub dict_id_bytes: u8,
    /// without a dictionary: write a Dictionary_ID field of `dict_id_bytes` (1/2/4) bytes holding 0
    /// ("no dictionary" spelled out - legal, accepted by libzstd, emitted by no compressor)
    #[serde(default)]
    pub zero_dict_id: bool,
    pub blocks: Vec<BlockSpec>,
}

#[derive(Clone, Debug, Serialize, Deserialize)]
pub enum BlockSpec {
    Raw {
        #[serde(with = "hexbytes")]
        data: Vec<u8>,
    },
    Rle {
        byte: u8,
        len: u32,
    },
    Comp(CompSpec),
}

#[derive(Clone, Debug, Serialize, Deserialize)]
pub struct CompSpec {
    #[serde(with = "hexbytes")]
    pub literals: Vec<u8>,
    /// requested literals type: 0 raw, 1 rle, 2 huffman with new table, 3 treeless
    pub lit_mode: u8,
    /// requested size format 0..=3
    pub lit_fmt: u8,
    /// 0: code lengths from symbol counts; otherwise seed of a random complete code
    pub huf_shape: u32,
    /// prefer FSE-compressed weights
    pub huf_fse: bool,
    pub seqs: Vec<SeqSpec>,
    /// 0 minimal, 1 at least two bytes, 2 three bytes when the count allows
    pub count_fmt: u8,
    /// requested modes for LL, OF, ML: 0 predefined 1 rle 2 fse 3 repeat
    pub modes: [u8; 3],
    /// per table: (requested accuracy log, shape seed)
    pub tables: [(u8, u32); 3],
}

#[derive(Clone, Debug, Serialize, Deserialize)]
pub struct SeqSpec {
    pub ll: u32,
    pub ml: u32,
    pub off: OffSpec,
}

#[derive(Clone, Copy, Debug, Serialize, Deserialize)]
pub enum OffSpec {
    /// repeat offset 1..=3
    Rep(u8),
    /// distance as a fraction (x / 65536) of the reachable history
    Frac(u16),
    /// distance measured from the far end of the reachable history (0 = farthest byte)
    FromFar(u32),
    /// absolute distance (clamped to what is reachable)
    Abs(u32),
    /// INVALID on purpose: k+1 bytes beyond everything reachable (probes for C07/C09); the frame is
    /// marked invalid and the executor substitutes zero bytes
    Beyond(u8),
    /// INVALID on purpose: k+1 bytes beyond the declared window (counted from the start of the
    /// sequence's literals, so also beyond window + current literals) but inside the frame's own earlier
    /// output (needs that much output and no dictionary, else treated as `FromFar(0)`). A decoder
    /// that has let go of everything older than the window must refuse it (C07 window-leak probe)
    PastWindow(u8),
}

#[derive(Clone, Debug, Default)]
pub struct SynthOut {
    pub bytes: Vec<u8>,
    pub content: Vec<u8>,
    pub window_size: u64,
    /// largest regenerated size of a compressed block
    pub max_block_regen: usize,
    /// the spec asked for a deliberately invalid offset
    pub invalid: bool,
}

pub struct Rng(pub u64);
impl Rng {
    pub fn next(&mut self) -> u64 {
        self.0 = self.0.wrapping_add(0x9E3779B97F4A7C15);
        let mut z = self.0;
        z = (z ^ (z >> 30)).wrapping_mul(0xBF58476D1CE4E5B9);
        z = (z ^ (z >> 27)).wrapping_mul(0x94D049BB133111EB);
        z ^ (z >> 31)
    }
    pub fn below(&mut self, n: u64) -> u64 {
        if n == 0 {
            0
        } else {
            self.next() % n
        }
    }
}

struct ExecBlock {
    lits: Vec<u8>,
    /// (ll, ml, offset_value)
    seqs: Vec<(u32, u32, u32)>,
}

struct SynthState {
    huf: Option<HufTable>,
    tabs: [TableState; 3],
    rep: [u32; 3],
}

/// Synthesize. `over_long` lifts the 128 KiB cap on a block's regenerated size (C05 uses it to
/// build deliberately invalid blocks); everything else stays valid.
pub fn synth(spec: &FrameSpec, dict: Option<&Dict>, over_long: bool) -> SynthOut {
    let dict_content: &[u8] = dict.map(|d| d.content.as_slice()).unwrap_or(&[]);
    let window: u64 = if spec.single_segment {
        u64::MAX
    } else {
        super::frame::window_from_descriptor(spec.window_desc)
    };
    let block_max = if over_long {
        usize::MAX / 4
    } else {
        (BLOCK_MAX as u64).min(window) as usize
    };
    let none = || TableState {
        rle: None,
        nc: None,
        table: vec![],
        log: 0,
    };
    let mut st = SynthState {
        huf: dict.and_then(|d| d.huf.clone()),
        tabs: [
            dict.and_then(|d| d.ll.clone()).map(TableState::from_nc).unwrap_or_else(none),
            dict.and_then(|d| d.of.clone()).map(TableState::from_nc).unwrap_or_else(none),
            dict.and_then(|d| d.ml.clone()).map(TableState::from_nc).unwrap_or_else(none),
        ],
        rep: dict.map(|d| d.rep).unwrap_or([1, 4, 8]),
    };
    // ---- pass 1: execute
    let mut content: Vec<u8> = vec![];
    let mut exec: Vec<Option<ExecBlock>> = vec![];
    let mut max_block_regen = 0usize;
    // raw / RLE blocks: legal sizes only - unless an over-long frame is asked for: then whatever the
    // 21-bit Block_Size field can say (an RLE block of 2 MiB - 1 is four bytes of input)
    let plain_cap = if over_long { (1usize << 21) - 1 } else { block_max.min(BLOCK_MAX) };
    let mut invalid = false;
    for b in &spec.blocks {
        match b {
            BlockSpec::Raw { data } => {
                let n = data.len().min(plain_cap);
                content.extend_from_slice(&data[..n]);
                if over_long {
                    max_block_regen = max_block_regen.max(n);
                }
                exec.push(None);
            }
            BlockSpec::Rle { byte, len } => {
                let n = (*len as usize).min(plain_cap);
                content.resize(content.len() + n, *byte);
                if over_long {
                    max_block_regen = max_block_regen.max(n);
                }
                exec.push(None);
            }
            BlockSpec::Comp(c) => {
                let before = content.len();
                let lit_cap = if over_long {
                    (1 << 20) - 1
                } else {
                    block_max.min(BLOCK_MAX - 512usize.saturating_add(12 * c.seqs.len()).min(BLOCK_MAX))
                };
                let lits: Vec<u8> = c.literals[..c.literals.len().min(lit_cap)].to_vec();
                let mut lit_pos = 0usize;
                let mut seqs = vec![];
                let mut budget = block_max.saturating_sub(lits.len());
                for s in &c.seqs {
                    if budget < 3 {
                        break;
                    }
                    let ll = (s.ll as usize).min(lits.len() - lit_pos).min(131071);
                    content.extend_from_slice(&lits[lit_pos..lit_pos + ll]);
                    lit_pos += ll;
                    let produced = content.len();
                    let dict_ok = !dict_content.is_empty() && (produced as u64) < window;
                    let in_frame = (produced as u64).min(window) as usize;
                    let reach = if dict_ok {
                        produced + dict_content.len()
                    } else {
                        in_frame
                    };
                    if let OffSpec::Beyond(k) = s.off {
                        // beyond *everything that exists* (all output so far plus the whole dictionary),
                        // not merely beyond the window
                        let d = (produced + dict_content.len()) as u32 + 1 + k as u32;
                        let ml = (s.ml.max(3) as usize).min(131074).min(budget);
                        resolve_offset(d + 3, ll as u32, &mut st.rep);
                        content.resize(content.len() + ml, 0);
                        budget -= ml;
                        seqs.push((ll as u32, ml as u32, d + 3));
                        invalid = true;
                        continue;
                    }
                    let mut off = s.off;
                    if let OffSpec::PastWindow(k) = off {
                        let d = window.min(1 << 31) as usize + ll + 1 + k as usize;
                        if dict_content.is_empty() && produced >= d && d < (1 << 30) {
                            let ml = (s.ml.max(3) as usize).min(131074).min(budget);
                            resolve_offset(d as u32 + 3, ll as u32, &mut st.rep);
                            let start = content.len() - d;
                            for k in 0..ml {
                                let byte = content[start + k];
                                content.push(byte);
                            }
                            budget -= ml;
                            seqs.push((ll as u32, ml as u32, d as u32 + 3));
                            invalid = true;
                            continue;
                        }
                        off = OffSpec::FromFar(0);
                    }
                    if reach == 0 {
                        // nothing to copy from yet: put the literals back and stop
                        content.truncate(produced - ll);
                        lit_pos -= ll;
                        break;
                    }
                    let ml = (s.ml.max(3) as usize).min(131074).min(budget);
                    let valid = |d: u32| d >= 1 && (d as usize) <= reach;
                    // resolve requested offset to an offset_value
                    let mut rep_try = st.rep;
                    let of_value: u32 = match off {
                        OffSpec::Rep(k) => {
                            let k = k.clamp(1, 3) as u32;
                            let d = resolve_offset(k, ll as u32, &mut rep_try);
                            if valid(d) {
                                k
                            } else {
                                (reach.min(1 + (k as usize * 7) % reach) as u32) + 3
                            }
                        }
                        OffSpec::Frac(f) => (1 + ((f as u64 * (reach as u64 - 1)) >> 16) as u32) + 3,
                        OffSpec::FromFar(k) => (reach as u32 - (k as u64).min(reach as u64 - 1) as u32) + 3,
                        OffSpec::Abs(d) => d.clamp(1, reach as u32) + 3,
                        OffSpec::Beyond(_) | OffSpec::PastWindow(_) => unreachable!(),
                    };
                    let d = resolve_offset(of_value, ll as u32, &mut st.rep) as usize;
                    debug_assert!(d >= 1 && d <= reach);
                    // copy
                    let mut done = 0usize;
                    if d > produced {
                        let r = d - produced;
                        let ds = dict_content.len() - r;
                        let n = ml.min(r);
                        content.extend_from_slice(&dict_content[ds..ds + n]);
                        done = n;
                    }
                    let start = content.len() - d;
                    for k in 0..(ml - done) {
                        let byte = content[start + k];
                        content.push(byte);
                    }
                    budget -= ml;
                    seqs.push((ll as u32, ml as u32, of_value));
                }
                content.extend_from_slice(&lits[lit_pos..]);
                max_block_regen = max_block_regen.max(content.len() - before);
                exec.push(Some(ExecBlock { lits, seqs }));
            }
        }
    }
    // ---- pass 2: serialise
    let mut out = vec![];
    out.extend_from_slice(&super::frame::MAGIC.to_le_bytes());
    let total = content.len() as u64;
    let mut fcs_bytes = spec.fcs_bytes;
    if spec.single_segment && fcs_bytes == 0 {
        fcs_bytes = 1;
    }
    if !spec.single_segment && fcs_bytes == 1 {
        fcs_bytes = 2;
    }
    fcs_bytes = match fcs_bytes {
        0 => 0,
        1 if total < 256 => 1,
        1 | 2 if (256..=65791).contains(&total) => 2,
        1 | 2 | 4 if total <= u32::MAX as u64 => 4,
        _ => 8,
    };
    let (did_bytes, did) = match dict {
        Some(d) if spec.dict_id_bytes > 0 && d.id != 0 => {
            let need = if d.id < 256 {
                1
            } else if d.id < 65536 {
                2
            } else {
                4
            };
            (spec.dict_id_bytes.max(need).min(4).next_power_of_two(), d.id)
        }
        None if spec.zero_dict_id && spec.dict_id_bytes > 0 => (spec.dict_id_bytes.min(4).next_power_of_two(), 0),
        _ => (0, 0),
    };
    let did_bytes = if did_bytes == 3 { 4 } else { did_bytes };
    let fcs_flag = match fcs_bytes {
        0 | 1 => 0u8,
        2 => 1,
        4 => 2,
        _ => 3,
    };
    let did_flag = match did_bytes {
        0 => 0u8,
        1 => 1,
        2 => 2,
        _ => 3,
    };
    let desc = (fcs_flag << 6)
        | ((spec.single_segment as u8) << 5)
        | ((spec.checksum as u8) << 2)
        | did_flag;
    out.push(desc);
    if !spec.single_segment {
        out.push(spec.window_desc);
    }
    out.extend_from_slice(&did.to_le_bytes()[..did_bytes as usize]);
    let fcs_val = if fcs_bytes == 2 { total - 256 } else { total };
    out.extend_from_slice(&fcs_val.to_le_bytes()[..fcs_bytes as usize]);

    let nblocks = spec.blocks.len();
    let empty_frame = nblocks == 0;
    let mut max_stored = 0usize;
    for (i, b) in spec.blocks.iter().enumerate() {
        let last = i + 1 == nblocks;
        match b {
            BlockSpec::Raw { data } => {
                let n = data.len().min(plain_cap);
                push_block_header(&mut out, last, 0, n);
                out.extend_from_slice(&data[..n]);
            }
            BlockSpec::Rle { byte, len } => {
                let n = (*len as usize).min(plain_cap);
                push_block_header(&mut out, last, 1, n);
                out.push(*byte);
            }
            BlockSpec::Comp(c) => {
                let eb = exec[i].as_ref().unwrap();
                // (a body above 128 KiB makes the frame invalid; the literal cap in pass 1 keeps
                // that rare and the reference decoder arbitrates)
                let body = encode_compressed_block(c, eb, &mut st);
                max_stored = max_stored.max(body.len());
                push_block_header(&mut out, last, 2, body.len());
                out.extend_from_slice(&body);
            }
        }
    }
    if empty_frame {
        push_block_header(&mut out, true, 0, 0);
    }
    if !over_long {
        // Block_Maximum_Size = min(Window_Size, 128 KiB) also bounds the *stored* size of a block
        // (Window_Size = content size in single-segment frames): widen the window until it fits.
        let limit = if spec.single_segment { total } else { window }.min(BLOCK_MAX as u64);
        if max_stored as u64 > limit && (spec.single_segment || (spec.window_desc >> 3) < 31) {
            let mut s2 = spec.clone();
            if s2.single_segment {
                s2.single_segment = false;
            } else {
                s2.window_desc = s2.window_desc.wrapping_add(8);
            }
            return synth(&s2, dict, over_long);
        }
    }
    if spec.checksum {
        out.extend_from_slice(&xxh64::checksum32(&content).to_le_bytes());
    }
    SynthOut {
        bytes: out,
        content,
        window_size: if spec.single_segment { total } else { window },
        max_block_regen,
        invalid,
    }
}

fn push_block_header(out: &mut Vec<u8>, last: bool, btype: u32, size: usize) {
    let v = (last as u32) | (btype << 1) | ((size as u32) << 3);
    out.extend_from_slice(&v.to_le_bytes()[..3]);
}

/// Random complete prefix code over `n` leaves with depth <= 11: lengths (unsorted).
fn random_code_lengths(n: usize, rng: &mut Rng) -> Vec<u8> {
    let mut leaves: Vec<u8> = vec![1, 1];
    while leaves.len() < n {
        // pick a splittable leaf
        let cands: Vec<usize> = (0..leaves.len()).filter(|&i| leaves[i] < huf::MAX_BITS).collect();
        let i = cands[rng.below(cands.len() as u64) as usize];
        let l = leaves[i] + 1;
        leaves[i] = l;
        leaves.push(l);
    }
    leaves
}

fn encode_literals(c: &CompSpec, lits: &[u8], st: &mut SynthState, out: &mut Vec<u8>) {
    let n = lits.len();
    let all_same = n > 0 && lits.iter().all(|&b| b == lits[0]);
    let mut counts = vec![0u32; 256];
    for &b in lits {
        counts[b as usize] += 1;
    }
    let distinct = counts.iter().filter(|&&c| c > 0).count();
    let mut mode = c.lit_mode & 3;
    if mode == 1 && !all_same {
        mode = 0;
    }
    if mode >= 2 && (distinct < 2 || n < 2) {
        mode = if all_same && n > 0 { 1 } else { 0 };
    }
    // ---- Huffman
    if mode >= 2 {
        let mut table: Option<(HufTable, Option<Vec<u8>>)> = None; // (table, description if new)
        if mode == 3 {
            if let Some(t) = &st.huf {
                let ok = (0..256).all(|s| counts[s] == 0 || (s < t.nbits.len() && t.nbits[s] > 0));
                if ok {
                    table = Some((t.clone(), None));
                }
            }
        }
        if table.is_none() {
            let maxsym = (0..256).rev().find(|&s| counts[s] > 0).unwrap();
            let weights: Option<(Vec<u8>, u8)> = if c.huf_shape == 0 {
                huf::weights_from_counts(&counts[..=maxsym])
            } else {
                let mut rng = Rng(c.huf_shape as u64);
                let mut lens = random_code_lengths(distinct, &mut rng);
                // frequent symbols get the short codes (keeps sizes sane) unless the seed is odd
                let mut present: Vec<usize> = (0..=maxsym).filter(|&s| counts[s] > 0).collect();
                if c.huf_shape % 2 == 0 {
                    present.sort_by_key(|&s| std::cmp::Reverse(counts[s]));
                    lens.sort();
                } else {
                    for i in (1..lens.len()).rev() {
                        let j = rng.below(i as u64 + 1) as usize;
                        lens.swap(i, j);
                    }
                }
                let max_bits = *lens.iter().max().unwrap();
                let mut w = vec![0u8; maxsym + 1];
                for (k, &s) in present.iter().enumerate() {
                    w[s] = max_bits + 1 - lens[k];
                }
                Some((w, max_bits))
            };
            if let Some((w, max_bits)) = weights {
                let t = huf::table_from_weights(&w, max_bits);
                let partial = &w[..w.len() - 1];
                // description: requested form first, the other as fallback
                let mut desc = None;
                let fse_try = |partial: &[u8]| -> Option<Vec<u8>> {
                    if partial.len() < 2 {
                        return None;
                    }
                    let mut wc = [0u32; 12];
                    for &x in partial {
                        wc[x as usize] += 1;
                    }
                    let support: Vec<(u8, u32, bool)> = (0..12u8)
                        .filter(|&s| wc[s as usize] > 0)
                        .map(|s| (s, wc[s as usize], false))
                        .collect();
                    for log in [6u8, 5] {
                        if support.len() > (1 << log) {
                            continue;
                        }
                        let mut sup = support.clone();
                        if sup.len() == 1 {
                            // a single-symbol table has 0-bit states everywhere: add a dummy
                            let other = if sup[0].0 == 0 { 1 } else { 0 };
                            sup.push((other, 1, false));
                        }
                        let nc = fse::make_ncount(log, &sup);
                        if let Some(d) = huf::write_fse(partial, &nc) {
                            return Some(d);
                        }
                    }
                    None
                };
                if c.huf_fse {
                    desc = fse_try(partial);
                }
                if desc.is_none() {
                    desc = huf::write_direct(partial);
                }
                if desc.is_none() {
                    desc = fse_try(partial);
                }
                if let Some(d) = desc {
                    // the description must parse back to the same table (self-check of the model)
                    if let Ok((back, used, _)) = huf::read_description(&d) {
                        if used == d.len() && back.nbits == t.nbits {
                            table = Some((back, Some(d)));
                        }
                    }
                }
            }
        }
        if let Some((t, desc)) = table {
            // size format
            let mut fmt = c.lit_fmt & 3;
            if fmt >= 1 && n < 6 {
                fmt = 0;
            }
            loop {
                let mut body = desc.clone().unwrap_or_default();
                if fmt == 0 {
                    body.extend_from_slice(&huf::encode_stream(&t, lits));
                } else {
                    let per = n.div_ceil(4);
                    let parts = [
                        &lits[..per.min(n)],
                        &lits[per.min(n)..(2 * per).min(n)],
                        &lits[(2 * per).min(n)..(3 * per).min(n)],
                        &lits[(3 * per).min(n)..],
                    ];
                    let enc: Vec<Vec<u8>> = parts.iter().map(|p| huf::encode_stream(&t, p)).collect();
                    if enc[..3].iter().any(|e| e.len() > 65535) {
                        break;
                    }
                    for e in &enc[..3] {
                        body.extend_from_slice(&(e.len() as u16).to_le_bytes());
                    }
                    for e in &enc {
                        body.extend_from_slice(e);
                    }
                }
                let bits = match fmt {
                    0 | 1 => 10,
                    2 => 14,
                    _ => 18,
                };
                if n < (1 << bits) && body.len() < (1 << bits) {
                    let ltype = if desc.is_some() { 2u64 } else { 3 };
                    let mut w = FwdWriter::new();
                    w.write(ltype, 2);
                    w.write(fmt as u64, 2);
                    w.write(n as u64, bits);
                    w.write(body.len() as u64, bits);
                    out.extend_from_slice(&w.finish());
                    out.extend_from_slice(&body);
                    st.huf = Some(t);
                    return;
                }
                if fmt == 3 {
                    break;
                }
                fmt += 1;
                if n < 6 {
                    break;
                }
            }
        }
        mode = if all_same && n > 0 { 1 } else { 0 };
    }
    // ---- raw / rle
    let mut fmt = c.lit_fmt & 3;
    let fits = |f: u8| match f {
        0 | 2 => n < 32,
        1 => n < 4096,
        _ => n < (1 << 20),
    };
    while !fits(fmt) {
        fmt = match fmt {
            0 | 2 => 1,
            _ => 3,
        };
    }
    let mut w = FwdWriter::new();
    w.write(mode as u64, 2);
    match fmt {
        0 | 2 => {
            w.write(fmt as u64, 2);
            w.write(n as u64, 5);
            // size format uses 1 bit: the second bit belongs to the size for formats 0/2
        }
        1 => {
            w.write(1, 2);
            w.write(n as u64, 12);
        }
        _ => {
            w.write(3, 2);
            w.write(n as u64, 20);
        }
    }
    let mut hdr = w.finish();
    if matches!(fmt, 0 | 2) {
        // 1-byte header: type(2) | 0 (1-bit size format) | size(5)
        hdr = vec![mode | (((n as u8) & 0x1F) << 3)];
    }
    out.extend_from_slice(&hdr);
    if mode == 1 {
        out.push(lits[0]);
    } else {
        out.extend_from_slice(lits);
    }
}

fn predefined(i: usize) -> TableState {
    let (log, p): (u8, &[i16]) = match i {
        0 => (LL_DEFAULT_LOG, &LL_DEFAULT),
        1 => (OF_DEFAULT_LOG, &OF_DEFAULT),
        _ => (ML_DEFAULT_LOG, &ML_DEFAULT),
    };
    TableState::from_nc(NCount {
        log,
        probs: p.to_vec(),
    })
}

/// A described table closely related to the predefined distribution of table `i` (0 LL, 1 OF, 2 ML):
/// variant 0 the longest proper prefix whose probabilities sum to a power of two >= 32, 1 the
/// predefined distribution itself spelled out, 2 the predefined one extended by further symbols
/// (sum raised to the next power of two on symbol 0), 3 the predefined one with two entries
/// swapped (same shape, other mapping). None if a symbol the block uses would get no probability.
pub fn derived_from_predefined(i: usize, variant: u32, used: &[u8]) -> Option<NCount> {
    let (dlog, d): (u8, &[i16]) = match i {
        0 => (LL_DEFAULT_LOG, &LL_DEFAULT),
        1 => (OF_DEFAULT_LOG, &OF_DEFAULT),
        _ => (ML_DEFAULT_LOG, &ML_DEFAULT),
    };
    let max_sym = [35usize, 31, 52][i];
    let max_log = [9u8, 8, 9][i];
    let weight = |p: i16| if p == -1 { 1i32 } else { p as i32 };
    let mut probs: Vec<i16> = d.to_vec();
    let mut log = dlog;
    match variant % 4 {
        0 => {
            let mut best = None;
            let mut sum = 0i32;
            for (k, p) in d.iter().enumerate() {
                sum += weight(*p);
                if k + 1 < d.len() && sum >= 32 && (sum as u32).is_power_of_two() {
                    best = Some((k + 1, sum));
                }
            }
            let (len, sum) = best?;
            probs.truncate(len);
            log = (sum as u32).trailing_zeros() as u8;
        }
        1 => {}
        2 => {
            let extra = (1 + (variant as usize >> 2) % 4).min(max_sym + 1 - probs.len());
            if extra == 0 || dlog >= max_log {
                return None;
            }
            for _ in 0..extra {
                probs.push(1);
            }
            log = dlog + 1;
            let sum: i32 = probs.iter().map(|p| weight(*p)).sum();
            let add = (1i32 << log) - sum;
            let first = probs.iter().position(|p| *p > 0)?;
            probs[first] += add as i16;
        }
        _ => {
            let a = (variant as usize >> 2) % probs.len();
            let b = (a + 1 + (variant as usize >> 8) % (probs.len() - 1)) % probs.len();
            probs.swap(a, b);
        }
    }
    if used.iter().any(|&u| (u as usize) >= probs.len() || probs[u as usize] == 0) {
        return None;
    }
    Some(NCount { log, probs })
}

fn encode_compressed_block(c: &CompSpec, eb: &ExecBlock, st: &mut SynthState) -> Vec<u8> {
    let mut out = vec![];
    encode_literals(c, &eb.lits, st, &mut out);
    let n = eb.seqs.len();
    if n == 0 {
        out.push(0);
        return out;
    }
    // count
    let fmt = c.count_fmt % 3;
    if n >= 0x7F00 {
        // three-byte form is the only one available from 0x7F00 upwards
        out.push(255);
        out.extend_from_slice(&((n - 0x7F00) as u16).to_le_bytes());
    } else if n >= 128 || fmt >= 1 {
        out.push(128 + (n >> 8) as u8);
        out.push((n & 255) as u8);
    } else {
        out.push(n as u8);
    }
    // codes
    let codes: Vec<[(u8, u32, u8); 3]> = eb
        .seqs
        .iter()
        .map(|&(ll, ml, ofv)| [ll_code(ll), of_code(ofv), ml_code(ml)])
        .collect();
    let max_logs = [LL_MAX_LOG, OF_MAX_LOG, ML_MAX_LOG];
    let max_syms = [MAX_LL_CODE, MAX_OF_CODE, MAX_ML_CODE];
    let mut modes = [0u8; 3];
    let mut table_bytes: Vec<u8> = vec![];
    for i in 0..3 {
        let mut used = [0u32; 64];
        for cds in &codes {
            used[cds[i].0 as usize] += 1;
        }
        let distinct: Vec<u8> = (0..64u8).filter(|&s| used[s as usize] > 0).collect();
        let want = c.modes[i] & 3;
        let prev_ok = {
            let p = &st.tabs[i];
            if let Some(r) = p.rle {
                distinct.len() == 1 && distinct[0] == r
            } else if !p.table.is_empty() {
                let enc = FseEnc::new(&p.table, p.log);
                distinct.iter().all(|&s| enc.can_encode(s))
            } else {
                false
            }
        };
        let pre = predefined(i);
        let pre_ok = {
            let enc = FseEnc::new(&pre.table, pre.log);
            distinct.iter().all(|&s| enc.can_encode(s))
        };
        let mode = match want {
            3 if prev_ok => 3,
            1 if distinct.len() == 1 => 1,
            0 if pre_ok => 0,
            _ => 2,
        };
        modes[i] = mode;
        match mode {
            0 => st.tabs[i] = pre,
            1 => {
                table_bytes.push(distinct[0]);
                st.tabs[i] = TableState {
                    rle: Some(distinct[0]),
                    nc: None,
                    table: vec![],
                    log: 0,
                };
            }
            2 if c.tables[i].1 % 8 == 5 && derived_from_predefined(i, c.tables[i].1 >> 3, &distinct).is_some() => {
                // a described table that is a close relative of the predefined one
                let nc = derived_from_predefined(i, c.tables[i].1 >> 3, &distinct).unwrap();
                table_bytes.extend_from_slice(&fse::write_ncount(&nc));
                st.tabs[i] = TableState::from_nc(nc);
            }
            2 => {
                let (req_log, seed) = c.tables[i];
                let mut rng = Rng(seed as u64 ^ 0xA5A5);
                let mut support: Vec<(u8, u32, bool)> = distinct
                    .iter()
                    .map(|&s| (s, used[s as usize], false))
                    .collect();
                // sprinkle unused symbols and less-than-one probabilities
                let extra = rng.below(4);
                for _ in 0..extra {
                    let s = rng.below(max_syms[i] as u64 + 1) as u8;
                    if !support.iter().any(|x| x.0 == s) {
                        support.push((s, 1, rng.below(2) == 0));
                    }
                }
                if support.len() == 1 {
                    let other = if support[0].0 == 0 { 1 } else { support[0].0 - 1 };
                    support.push((other, 1, rng.below(2) == 0));
                }
                if seed % 3 == 0 {
                    // mark rare used symbols as less-than-one
                    let total: u32 = support.iter().map(|s| s.1).sum();
                    for s in support.iter_mut() {
                        if (s.1 as u64) * 64 < total as u64 {
                            s.2 = true;
                        }
                    }
                }
                support.sort();
                let min_log = (support.len().next_power_of_two().trailing_zeros() as u8).max(5);
                let log = req_log.clamp(min_log, max_logs[i].max(min_log)).min(max_logs[i]);
                let nc = fse::make_ncount(log, &support);
                // (one description in four has its zero runs written in several pieces: legal, and
                // nothing but a hand-made frame ever contains it)
                table_bytes.extend_from_slice(&fse::write_ncount_with(&nc, if seed % 4 == 3 { seed | 1 } else { 0 }));
                st.tabs[i] = TableState::from_nc(nc);
            }
            _ => {}
        }
    }
    out.push((modes[0] << 6) | (modes[1] << 4) | (modes[2] << 2));
    out.extend_from_slice(&table_bytes);
    // bitstream
    let encs: Vec<Option<FseEnc>> = (0..3)
        .map(|i| {
            if st.tabs[i].rle.is_some() {
                None
            } else {
                Some(FseEnc::new(&st.tabs[i].table, st.tabs[i].log))
            }
        })
        .collect();
    let mut w = FwdWriter::new();
    let mut states = [0u16; 3];
    for k in (0..n).rev() {
        let cd = &codes[k];
        if k == n - 1 {
            for i in 0..3 {
                if let Some(e) = &encs[i] {
                    states[i] = e.start(cd[i].0, k);
                }
            }
        } else {
            // reverse of the decoder's update order LL, ML, OF
            for i in [1usize, 2, 0] {
                if let Some(e) = &encs[i] {
                    let (s, v, nb) = e.step(cd[i].0, states[i]);
                    w.write(v, nb);
                    states[i] = s;
                }
            }
        }
        // reverse of the decoder's read order OF, ML, LL
        w.write(cd[0].1 as u64, cd[0].2 as u32);
        w.write(cd[2].1 as u64, cd[2].2 as u32);
        w.write(cd[1].1 as u64, cd[1].2 as u32);
    }
    // reverse of the init order LL, OF, ML
    for i in [2usize, 1, 0] {
        if let Some(e) = &encs[i] {
            w.write(states[i] as u64, e.log as u32);
        }
    }
    out.extend_from_slice(&w.finish_with_mark());
    out
}
