//! Sequence code tables transcribed from RFC 8878 section 3.1.1.3.2.1.1 and the predefined
//! distributions of section 3.1.1.3.2.2.

/// Literals length codes: (baseline, extra bits) for codes 0..=35
pub const LL_TABLE: [(u32, u8); 36] = [
    (0, 0), (1, 0), (2, 0), (3, 0), (4, 0), (5, 0), (6, 0), (7, 0),
    (8, 0), (9, 0), (10, 0), (11, 0), (12, 0), (13, 0), (14, 0), (15, 0),
    (16, 1), (18, 1), (20, 1), (22, 1), (24, 2), (28, 2), (32, 3), (40, 3),
    (48, 4), (64, 6), (128, 7), (256, 8), (512, 9), (1024, 10), (2048, 11), (4096, 12),
    (8192, 13), (16384, 14), (32768, 15), (65536, 16),
];

/// Match length codes: (baseline, extra bits) for codes 0..=52
pub const ML_TABLE: [(u32, u8); 53] = [
    (3, 0), (4, 0), (5, 0), (6, 0), (7, 0), (8, 0), (9, 0), (10, 0),
    (11, 0), (12, 0), (13, 0), (14, 0), (15, 0), (16, 0), (17, 0), (18, 0),
    (19, 0), (20, 0), (21, 0), (22, 0), (23, 0), (24, 0), (25, 0), (26, 0),
    (27, 0), (28, 0), (29, 0), (30, 0), (31, 0), (32, 0), (33, 0), (34, 0),
    (35, 1), (37, 1), (39, 1), (41, 1), (43, 2), (47, 2), (51, 3), (59, 3),
    (67, 4), (83, 4), (99, 5), (131, 7), (259, 8), (515, 9), (1027, 10), (2051, 11),
    (4099, 12), (8195, 13), (16387, 14), (32771, 15), (65539, 16),
];

pub const LL_DEFAULT_LOG: u8 = 6;
pub const LL_DEFAULT: [i16; 36] = [
    4, 3, 2, 2, 2, 2, 2, 2, 2, 2, 2, 2, 2, 1, 1, 1, 2, 2, 2, 2, 2, 2, 2, 2, 2, 3, 2, 1, 1, 1, 1, 1,
    -1, -1, -1, -1,
];
pub const ML_DEFAULT_LOG: u8 = 6;
pub const ML_DEFAULT: [i16; 53] = [
    1, 4, 3, 2, 2, 2, 2, 2, 2, 1, 1, 1, 1, 1, 1, 1, 1, 1, 1, 1, 1, 1, 1, 1, 1, 1, 1, 1, 1, 1, 1, 1,
    1, 1, 1, 1, 1, 1, 1, 1, 1, 1, 1, 1, 1, 1, -1, -1, -1, -1, -1, -1, -1,
];
pub const OF_DEFAULT_LOG: u8 = 5;
pub const OF_DEFAULT: [i16; 29] = [
    1, 1, 1, 1, 1, 1, 2, 2, 2, 1, 1, 1, 1, 1, 1, 1, 1, 1, 1, 1, 1, 1, 1, 1, -1, -1, -1, -1, -1,
];

pub const LL_MAX_LOG: u8 = 9;
pub const ML_MAX_LOG: u8 = 9;
pub const OF_MAX_LOG: u8 = 8;
pub const MAX_LL_CODE: u8 = 35;
pub const MAX_ML_CODE: u8 = 52;
pub const MAX_OF_CODE: u8 = 31;

/// value -> (code, extra value, extra bits)
pub fn ll_code(v: u32) -> (u8, u32, u8) {
    let mut code = 0usize;
    for (i, (base, _)) in LL_TABLE.iter().enumerate() {
        if *base <= v {
            code = i;
        }
    }
    (code as u8, v - LL_TABLE[code].0, LL_TABLE[code].1)
}

pub fn ml_code(v: u32) -> (u8, u32, u8) {
    let mut code = 0usize;
    for (i, (base, _)) in ML_TABLE.iter().enumerate() {
        if *base <= v {
            code = i;
        }
    }
    (code as u8, v - ML_TABLE[code].0, ML_TABLE[code].1)
}

/// offset *value* (>= 1) -> (code, extra, bits): code = floor(log2(value)), extra = value - 2^code
pub fn of_code(v: u32) -> (u8, u32, u8) {
    let code = 31 - v.leading_zeros();
    (code as u8, v - (1u32 << code), code as u8)
}

/// The repeat-offset rules of RFC 8878 section 3.1.1.5. Returns the actual offset and updates `rep`.
/// A resulting offset of 0 (rep1 - 1 with rep1 == 1) is reported as 0: the data is corrupt.
pub fn resolve_offset(offset_value: u32, ll: u32, rep: &mut [u32; 3]) -> u32 {
    if offset_value > 3 {
        let o = offset_value - 3;
        rep[2] = rep[1];
        rep[1] = rep[0];
        rep[0] = o;
        return o;
    }
    // repeat codes
    let idx = if ll == 0 { offset_value } else { offset_value - 1 }; // 0..=3
    let o = match idx {
        0 => rep[0],
        1 => rep[1],
        2 => rep[2],
        _ => rep[0].wrapping_sub(1),
    };
    match idx {
        0 => {}
        1 => {
            rep[1] = rep[0];
            rep[0] = o;
        }
        _ => {
            rep[2] = rep[1];
            rep[1] = rep[0];
            rep[0] = o;
        }
    }
    o
}
