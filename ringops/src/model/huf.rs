//! Huffman coding per RFC 8878 section 4.2: weights, canonical codes, descriptions, streams.

use super::bits::{BackReader, FwdWriter};
use super::fse;

pub const MAX_BITS: u8 = 11;

#[derive(Clone, Debug, PartialEq, Eq)]
pub struct HufTable {
    pub max_bits: u8,
    /// number of bits per symbol (0 = absent); length = number of symbols incl. the inferred last
    pub nbits: Vec<u8>,
    /// canonical code per symbol (MSB-first value of `nbits` bits)
    pub codes: Vec<u16>,
    /// decoding table of size 2^max_bits: (symbol, nbits)
    pub dtable: Vec<(u8, u8)>,
}

/// From the explicitly transmitted weights (without the last one) infer the last weight and
/// build the table. Errors for everything the specification does not allow.
pub fn table_from_partial_weights(partial: &[u8]) -> Result<HufTable, String> {
    if partial.is_empty() {
        return Err("huffman: no weights".into());
    }
    if partial.len() > 255 {
        return Err("huffman: more than 255 transmitted weights".into());
    }
    let mut sum: u32 = 0;
    for &w in partial {
        if w > MAX_BITS {
            return Err(format!("huffman: weight {w} > 11"));
        }
        if w > 0 {
            sum += 1 << (w - 1);
        }
    }
    if sum == 0 {
        return Err("huffman: all weights zero".into());
    }
    let max_bits = 32 - sum.leading_zeros(); // log2(sum) + 1
    if max_bits > MAX_BITS as u32 {
        return Err(format!("huffman: max bits {max_bits} > 11"));
    }
    let left = (1u32 << max_bits) - sum;
    if !left.is_power_of_two() {
        return Err(format!("huffman: rest {left} is not a power of two"));
    }
    let last_weight = (32 - left.leading_zeros()) as u8; // log2(left)+1
    let mut weights = partial.to_vec();
    weights.push(last_weight);
    Ok(table_from_weights(&weights, max_bits as u8))
}

/// All weights given (sum of 2^(w-1) must be 2^max_bits).
pub fn table_from_weights(weights: &[u8], max_bits: u8) -> HufTable {
    let n = weights.len();
    let mut nbits = vec![0u8; n];
    for (s, &w) in weights.iter().enumerate() {
        if w > 0 {
            nbits[s] = max_bits + 1 - w;
        }
    }
    // canonical assignment: decoding table filled by increasing weight (= decreasing length),
    // symbols of equal weight in natural order; each symbol of weight w occupies 2^(w-1) slots.
    let size = 1usize << max_bits;
    let mut dtable = vec![(0u8, 0u8); size];
    let mut codes = vec![0u16; n];
    let mut pos = 0usize;
    for w in 1..=max_bits {
        for s in 0..n {
            if weights[s] == w {
                let span = 1usize << (w - 1);
                for e in dtable.iter_mut().skip(pos).take(span) {
                    *e = (s as u8, nbits[s]);
                }
                codes[s] = (pos >> (w - 1)) as u16;
                pos += span;
            }
        }
    }
    debug_assert_eq!(pos, size);
    HufTable {
        max_bits,
        nbits,
        codes,
        dtable,
    }
}

/// Parse a Huffman tree description; returns (table, bytes consumed, was FSE-compressed).
pub fn read_description(src: &[u8]) -> Result<(HufTable, usize, bool), String> {
    let header = *src.first().ok_or("huffman: empty description")?;
    if header >= 128 {
        let n = header as usize - 127;
        let bytes = n.div_ceil(2);
        if src.len() < 1 + bytes {
            return Err("huffman: truncated direct weights".into());
        }
        let mut weights = Vec::with_capacity(n);
        for i in 0..n {
            let b = src[1 + i / 2];
            weights.push(if i % 2 == 0 { b >> 4 } else { b & 15 });
        }
        Ok((table_from_partial_weights(&weights)?, 1 + bytes, false))
    } else {
        let size = header as usize;
        if src.len() < 1 + size {
            return Err("huffman: truncated fse weights".into());
        }
        let body = &src[1..1 + size];
        let (nc, used) = fse::read_ncount(body, 6, 255)?;
        // weights are symbols 0..=11 only; larger symbols are caught as weight > 11 below
        if used >= body.len() {
            return Err("huffman: fse description leaves no stream".into());
        }
        let table = fse::build_dtable(&nc);
        let weights = fse::decode_interleaved2(&table, nc.log, &body[used..])?;
        Ok((table_from_partial_weights(&weights)?, 1 + size, true))
    }
}

/// Write weights (all symbols, last one will be dropped / inferred) in direct form.
pub fn write_direct(weights_without_last: &[u8]) -> Option<Vec<u8>> {
    let n = weights_without_last.len();
    if n == 0 || n > 128 {
        return None;
    }
    let mut out = vec![(127 + n) as u8];
    for c in weights_without_last.chunks(2) {
        out.push((c[0] << 4) | c.get(1).copied().unwrap_or(0));
    }
    Some(out)
}

/// Write weights FSE-compressed with the given normalized count (log 5 or 6 over symbols 0..=11).
pub fn write_fse(weights_without_last: &[u8], nc: &fse::NCount) -> Option<Vec<u8>> {
    let table = fse::build_dtable(nc);
    let enc = fse::FseEnc::new(&table, nc.log);
    if !weights_without_last.iter().all(|&w| enc.can_encode(w)) {
        return None;
    }
    let mut body = fse::write_ncount(nc);
    let stream = fse::encode_interleaved2(&enc, &table, weights_without_last)?;
    body.extend_from_slice(&stream);
    if body.len() >= 128 {
        return None;
    }
    let mut out = vec![body.len() as u8];
    out.extend_from_slice(&body);
    Some(out)
}

/// Encode one Huffman stream (symbols are written in reverse so the decoder reads them forward).
pub fn encode_stream(t: &HufTable, data: &[u8]) -> Vec<u8> {
    let mut w = FwdWriter::new();
    for &s in data.iter().rev() {
        let nb = t.nbits[s as usize] as u32;
        debug_assert!(nb > 0);
        // code is MSB-first; the backward reader reconstructs MSB first from the top, so write as a value
        w.write(t.codes[s as usize] as u64, nb);
    }
    w.finish_with_mark()
}

/// Decode one stream completely; the number of symbols is whatever consumes the stream exactly.
pub fn decode_stream(t: &HufTable, src: &[u8], out: &mut Vec<u8>, limit: usize) -> Result<(), String> {
    let mut r = BackReader::new(src)?;
    let mb = t.max_bits as u32;
    // state = next max_bits bits
    let mut state = r.read(mb) as usize;
    // remaining counts real bits left; after init it may be negative (stream shorter than max_bits)
    let mask = (1usize << mb) - 1;
    while r.remaining > -(mb as i64) {
        let (sym, nb) = t.dtable[state];
        out.push(sym);
        if out.len() > limit {
            return Err("huffman stream: more symbols than the section declares".into());
        }
        let bits = r.read(nb as u32) as usize;
        state = ((state << nb) & mask) | bits;
    }
    if r.remaining != -(mb as i64) {
        return Err(format!(
            "huffman stream: did not end on a symbol boundary (remaining {})",
            r.remaining
        ));
    }
    Ok(())
}

/// Build weights for a set of symbol frequencies with depth limit 11 (package-merge-free: a plain
/// Huffman construction followed by a Kraft repair). Returns per-symbol weights for symbols
/// 0..=max_symbol (0 = absent). Needs >= 2 present symbols.
pub fn weights_from_counts(counts: &[u32]) -> Option<(Vec<u8>, u8)> {
    let present: Vec<usize> = (0..counts.len()).filter(|&i| counts[i] > 0).collect();
    if present.len() < 2 {
        return None;
    }
    // plain Huffman code lengths
    let mut nodes: Vec<(u64, Vec<usize>)> = present.iter().map(|&i| (counts[i] as u64, vec![i])).collect();
    let mut len = vec![0u8; counts.len()];
    while nodes.len() > 1 {
        nodes.sort_by(|a, b| b.0.cmp(&a.0).then(b.1.len().cmp(&a.1.len())));
        let a = nodes.pop().unwrap();
        let b = nodes.pop().unwrap();
        let mut syms = a.1;
        syms.extend(b.1);
        for &s in &syms {
            len[s] += 1;
        }
        nodes.push((a.0 + b.0, syms));
    }
    // limit to 11 bits, then repair Kraft sum to exactly 1
    let limit = MAX_BITS;
    for &s in &present {
        if len[s] > limit {
            len[s] = limit;
        }
    }
    let unit = 1u64 << limit;
    let kraft = |len: &Vec<u8>| -> u64 { present.iter().map(|&s| unit >> len[s]).sum() };
    let mut k = kraft(&len);
    // too full: lengthen the shortest-but-lengthenable codes
    while k > unit {
        let mut best = None;
        for &s in &present {
            if len[s] < limit && best.map(|b: usize| len[s] > len[b]).unwrap_or(true) {
                best = Some(s);
            }
        }
        let s = best?;
        k -= unit >> len[s];
        len[s] += 1;
        k += unit >> len[s];
    }
    // too empty: shorten longest codes where it fits
    while k < unit {
        let mut done = false;
        let mut order: Vec<usize> = present.clone();
        order.sort_by_key(|&s| std::cmp::Reverse(len[s]));
        for s in order {
            let gain = (unit >> (len[s] - 1)) - (unit >> len[s]);
            if len[s] > 1 && k + gain <= unit {
                len[s] -= 1;
                k += gain;
                done = true;
                break;
            }
        }
        if !done {
            return None;
        }
    }
    let max_bits = *present.iter().map(|&s| &len[s]).max().unwrap();
    let weights: Vec<u8> = (0..counts.len())
        .map(|s| if len[s] > 0 { max_bits + 1 - len[s] } else { 0 })
        .collect();
    Some((weights, max_bits))
}
