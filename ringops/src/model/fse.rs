//! FSE per RFC 8878 section 4.1: normalized-count (de)serialisation, decoding table, and an encoder
//! derived from the decoding table (used by the synthesizer only).

use super::bits::{BackReader, FwdReader, FwdWriter};

#[derive(Clone, Copy, Debug, PartialEq, Eq)]
pub struct DEntry {
    pub symbol: u8,
    pub nb: u8,
    pub base: u16,
}

#[derive(Clone, Debug, PartialEq, Eq)]
pub struct NCount {
    pub log: u8,
    /// probabilities, -1 = "less than one"
    pub probs: Vec<i16>,
}

/// Parse a normalized-count header. Returns (ncount, bytes consumed).
pub fn read_ncount(src: &[u8], max_log: u8, max_symbol: usize) -> Result<(NCount, usize), String> {
    let mut r = FwdReader::new(src);
    let log = 5 + r.read(4).ok_or("ncount: truncated")? as u8;
    if log > max_log {
        return Err(format!("ncount: accuracy log {log} > max {max_log}"));
    }
    let mut remaining: i32 = 1 << log;
    let mut probs: Vec<i16> = vec![];
    while remaining > 0 {
        // value in 0..=remaining+1, i.e. remaining+2 possibilities
        let max_val = (remaining + 1) as u32;
        let bits = 32 - max_val.leading_zeros(); // bits needed to hold max_val
        let low_threshold = (1u32 << bits) - 1 - max_val;
        let lower_mask = (1u32 << (bits - 1)) - 1;
        let peek = r.read(bits - 1).ok_or("ncount: truncated")? as u32;
        let value = if (peek & lower_mask) < low_threshold {
            peek & lower_mask
        } else {
            let top = r.read(1).ok_or("ncount: truncated")? as u32;
            let full = peek | (top << (bits - 1));
            if full > lower_mask {
                full - low_threshold
            } else {
                full
            }
        };
        let prob = value as i32 - 1;
        probs.push(prob as i16);
        remaining -= if prob < 0 { 1 } else { prob };
        if remaining < 0 {
            return Err("ncount: probabilities exceed table size".into());
        }
        if prob == 0 {
            loop {
                let rep = r.read(2).ok_or("ncount: truncated")? as usize;
                for _ in 0..rep {
                    probs.push(0);
                }
                if rep != 3 {
                    break;
                }
            }
        }
        if probs.len() > max_symbol + 1 {
            return Err(format!("ncount: too many symbols ({})", probs.len()));
        }
    }
    if probs.len() > max_symbol + 1 {
        return Err(format!("ncount: too many symbols ({})", probs.len()));
    }
    Ok((NCount { log, probs }, r.bytes_used()))
}

/// Serialise a normalized count (probabilities must sum to 2^log with -1 counting 1, and the
/// last probability must be non-zero).
pub fn write_ncount(nc: &NCount) -> Vec<u8> {
    write_ncount_with(nc, 0)
}

/// `split` != 0: a legal but non-canonical serialisation - a run of zero probabilities may be
/// written in several pieces (the repeat flag ends early, the next zero is spelled out as a
/// probability of its own, with its own repeat flag). No known writer does this; every reader of
/// the format has to accept it and arrive at the same distribution.
pub fn write_ncount_with(nc: &NCount, split: u32) -> Vec<u8> {
    let mut cut = super::synth::Rng(split as u64);
    let mut w = FwdWriter::new();
    w.write((nc.log - 5) as u64, 4);
    let mut remaining: i32 = 1 << nc.log;
    let mut i = 0;
    while remaining > 0 {
        let prob = nc.probs[i] as i32;
        i += 1;
        let max_val = (remaining + 1) as u32;
        let bits = 32 - max_val.leading_zeros();
        let low_threshold = (1u32 << bits) - 1 - max_val;
        let lower_mask = (1u32 << (bits - 1)) - 1;
        let value = (prob + 1) as u32;
        if value < low_threshold {
            w.write(value as u64, bits - 1);
        } else if value > lower_mask {
            w.write((value + low_threshold) as u64, bits);
        } else {
            w.write(value as u64, bits);
        }
        remaining -= if prob < 0 { 1 } else { prob };
        if prob == 0 {
            // count following zeros
            let mut zeros = 0;
            while i < nc.probs.len() && nc.probs[i] == 0 {
                zeros += 1;
                i += 1;
            }
            if split != 0 && zeros > 0 && cut.below(3) > 0 {
                // end the run after `take` of the following zeros; the rest is met again as a
                // probability 0 by the loop
                let take = cut.below(zeros as u64 + 1) as usize;
                i -= zeros - take;
                zeros = take;
            }
            let mut z = zeros;
            while z >= 3 {
                w.write(3, 2);
                z -= 3;
            }
            w.write(z as u64, 2);
        }
    }
    w.finish()
}

/// Build the decoding table of RFC 8878 section 4.1.1.
pub fn build_dtable(nc: &NCount) -> Vec<DEntry> {
    let size = 1usize << nc.log;
    let mut table = vec![
        DEntry {
            symbol: 0,
            nb: 0,
            base: 0
        };
        size
    ];
    let mut taken = vec![false; size];
    let mut high = size;
    for (s, &p) in nc.probs.iter().enumerate() {
        if p == -1 {
            high -= 1;
            table[high] = DEntry {
                symbol: s as u8,
                nb: nc.log,
                base: 0,
            };
            taken[high] = true;
        }
    }
    let step = (size >> 1) + (size >> 3) + 3;
    let mask = size - 1;
    let mut pos = 0usize;
    for (s, &p) in nc.probs.iter().enumerate() {
        if p <= 0 {
            continue;
        }
        for _ in 0..p {
            table[pos].symbol = s as u8;
            pos = (pos + step) & mask;
            while pos >= high {
                pos = (pos + step) & mask;
            }
        }
    }
    // nb / baseline: states of one symbol, in table order, numbered from p upwards
    let mut next: Vec<u32> = nc.probs.iter().map(|&p| if p > 0 { p as u32 } else { 1 }).collect();
    for e in table.iter_mut().take(high) {
        let s = e.symbol as usize;
        let x = next[s];
        next[s] += 1;
        let nb = nc.log as u32 - (31 - x.leading_zeros());
        e.nb = nb as u8;
        e.base = ((x << nb) - size as u32) as u16;
    }
    let _ = taken;
    table
}

/// One interleaved / single FSE decoder state.
pub struct FseDec<'a> {
    pub table: &'a [DEntry],
    pub log: u8,
    pub state: usize,
}

impl<'a> FseDec<'a> {
    pub fn new(table: &'a [DEntry], log: u8) -> Self {
        FseDec { table, log, state: 0 }
    }
    pub fn init(&mut self, r: &mut BackReader) {
        self.state = r.read(self.log as u32) as usize;
    }
    pub fn symbol(&self) -> u8 {
        self.table[self.state].symbol
    }
    pub fn update(&mut self, r: &mut BackReader) {
        let e = self.table[self.state];
        self.state = e.base as usize + r.read(e.nb as u32) as usize;
    }
}

/// Encoder derived from a decoding table.
pub struct FseEnc {
    pub log: u8,
    /// per symbol: (base, nb, state index) sorted by base
    by_symbol: Vec<Vec<(u16, u8, u16)>>,
}

impl FseEnc {
    pub fn new(table: &[DEntry], log: u8) -> FseEnc {
        let mut by_symbol: Vec<Vec<(u16, u8, u16)>> = vec![vec![]; 256];
        for (i, e) in table.iter().enumerate() {
            by_symbol[e.symbol as usize].push((e.base, e.nb, i as u16));
        }
        for v in by_symbol.iter_mut() {
            v.sort();
        }
        FseEnc { log, by_symbol }
    }
    pub fn can_encode(&self, s: u8) -> bool {
        !self.by_symbol[s as usize].is_empty()
    }
    /// any state that emits `s` (the first in table order)
    pub fn start(&self, s: u8, pick: usize) -> u16 {
        let v = &self.by_symbol[s as usize];
        v[pick % v.len()].2
    }
    /// state emitting `s` from which the decoder reaches `target`; returns (new state, bits value, nb)
    pub fn step(&self, s: u8, target: u16) -> (u16, u64, u32) {
        for &(base, nb, idx) in &self.by_symbol[s as usize] {
            if target >= base && (target as u32) < base as u32 + (1u32 << nb) {
                return (idx, (target - base) as u64, nb as u32);
            }
        }
        panic!("model FSE encoder: symbol {s} cannot reach state {target}");
    }
}

/// Encode `symbols` as one FSE stream (decoder: init, then symbol/update alternately, no update
/// after the last symbol). Returns the backward bitstream with end mark.
pub fn encode_stream(enc: &FseEnc, symbols: &[u8]) -> Vec<u8> {
    let mut w = FwdWriter::new();
    let n = symbols.len();
    let mut state = enc.start(symbols[n - 1], 0);
    for i in (0..n - 1).rev() {
        let (st, v, nb) = enc.step(symbols[i], state);
        w.write(v, nb);
        state = st;
    }
    w.write(state as u64, enc.log as u32);
    w.finish_with_mark()
}

/// Decode exactly `n` symbols of a single stream; returns (symbols, bits remaining).
pub fn decode_stream(table: &[DEntry], log: u8, src: &[u8], n: usize) -> Result<(Vec<u8>, i64), String> {
    let mut r = BackReader::new(src)?;
    let mut d = FseDec::new(table, log);
    d.init(&mut r);
    let mut out = vec![];
    for i in 0..n {
        out.push(d.symbol());
        if i + 1 < n {
            d.update(&mut r);
        }
    }
    Ok((out, r.remaining))
}

/// Huffman-weight style: two interleaved states, number of symbols implied by stream exhaustion.
pub fn decode_interleaved2(table: &[DEntry], log: u8, src: &[u8]) -> Result<Vec<u8>, String> {
    decode_interleaved2_limit(table, log, src, 255)
}

/// `limit`: give up beyond that many symbols (255 for Huffman weights)
pub fn decode_interleaved2_limit(table: &[DEntry], log: u8, src: &[u8], limit: usize) -> Result<Vec<u8>, String> {
    let mut r = BackReader::new(src)?;
    let mut d1 = FseDec::new(table, log);
    let mut d2 = FseDec::new(table, log);
    d1.init(&mut r);
    d2.init(&mut r);
    if r.remaining < 0 {
        return Err("fse weights: stream too short for two states".into());
    }
    let mut out = vec![];
    loop {
        out.push(d1.symbol());
        d1.update(&mut r);
        if r.remaining < 0 {
            out.push(d2.symbol());
            break;
        }
        out.push(d2.symbol());
        d2.update(&mut r);
        if r.remaining < 0 {
            out.push(d1.symbol());
            break;
        }
        if out.len() > limit {
            return Err(format!("fse interleaved stream: more than {limit} symbols"));
        }
    }
    Ok(out)
}

/// Encode `symbols` (len >= 2) with two interleaved states such that `decode_interleaved2`
/// returns them. Returns None when the stream cannot be terminated unambiguously (the final
/// update of the decoder must overshoot the stream start; guaranteed only if that state's nb > 0 —
/// the caller then picks another table).
pub fn encode_interleaved2(enc: &FseEnc, table: &[DEntry], symbols: &[u8]) -> Option<Vec<u8>> {
    let n = symbols.len();
    if n < 2 {
        return None;
    }
    // Decoder order: d1 emits symbols 0,2,4..., d2 emits 1,3,5...
    // The last two symbols are emitted as "final states": the decoder that overshoots does the
    // update (reading nb bits past the start), the other one's current symbol is output.
    // Writing backwards: last symbol s[n-1] is the state of decoder B (not updated),
    // s[n-2] is emitted by decoder A which then updates with overshooting bits.
    // A's state for s[n-2] must have nb >= 1 so that the overshoot happens (remaining < 0).
    let a_is_d1 = (n - 2) % 2 == 0;
    // choose A's final state: any state for s[n-2] with nb >= 1
    let mut a_state = None;
    for pick in 0..64 {
        let st = enc.start(symbols[n - 2], pick);
        if table[st as usize].nb >= 1 {
            a_state = Some(st);
            break;
        }
    }
    let mut st_a = a_state?;
    let mut st_b = enc.start(symbols[n - 1], 0);
    let mut w = FwdWriter::new();
    // remaining symbols, going backwards: index i = n-3 down to 0; symbol i belongs to d1 if even
    let mut i = n as isize - 3;
    while i >= 0 {
        let is_d1 = i % 2 == 0;
        let s = symbols[i as usize];
        if is_d1 == a_is_d1 {
            let (st, v, nb) = enc.step(s, st_a);
            w.write(v, nb);
            st_a = st;
        } else {
            let (st, v, nb) = enc.step(s, st_b);
            w.write(v, nb);
            st_b = st;
        }
        i -= 1;
    }
    // init order: d1 first (read first = written last)
    let (s1, s2) = if a_is_d1 { (st_a, st_b) } else { (st_b, st_a) };
    w.write(s2 as u64, enc.log as u32);
    w.write(s1 as u64, enc.log as u32);
    let out = w.finish_with_mark();
    // verify with the model decoder (termination conditions are subtle): must round-trip
    match decode_interleaved2(table, enc.log, &out) {
        Ok(d) if d == symbols => Some(out),
        _ => None,
    }
}

/// Normalise arbitrary positive weights over a support into a valid NCount of the given log.
/// `support[i]` = (symbol, weight >= 1, less_than_one?). Symbols not listed get probability 0.
/// Guarantees sum == 2^log. Requires support.len() <= 2^log.
pub fn make_ncount(log: u8, support: &[(u8, u32, bool)]) -> NCount {
    let size = 1i64 << log;
    let maxsym = support.iter().map(|s| s.0).max().unwrap() as usize;
    let mut probs = vec![0i16; maxsym + 1];
    let lt1: i64 = support.iter().filter(|s| s.2).count() as i64;
    let normal: Vec<&(u8, u32, bool)> = support.iter().filter(|s| !s.2).collect();
    for s in support.iter().filter(|s| s.2) {
        probs[s.0 as usize] = -1;
    }
    if normal.is_empty() {
        // all less-than-one: only valid if count == size; otherwise promote the first
        let mut left = size - lt1;
        if left > 0 {
            let s0 = support[0].0 as usize;
            probs[s0] = (left + 1) as i16;
            left = 0;
        }
        let _ = left;
        return NCount { log, probs };
    }
    let budget = size - lt1; // to distribute, each normal symbol >= 1
    let total_w: i64 = normal.iter().map(|s| s.1 as i64).sum();
    let spare = budget - normal.len() as i64;
    let mut given = 0i64;
    for s in &normal {
        let share = spare * s.1 as i64 / total_w;
        probs[s.0 as usize] = (1 + share) as i16;
        given += 1 + share;
    }
    // leftover to the heaviest
    let heavy = normal.iter().max_by_key(|s| s.1).unwrap().0 as usize;
    probs[heavy] += (budget - given) as i16;
    NCount { log, probs }
}
