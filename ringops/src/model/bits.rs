//! Bit streams of RFC 8878: forward (LSB first) reader/writer, and the backward stream with end mark.

pub struct FwdReader<'a> {
    src: &'a [u8],
    pos: usize, // in bits
}

impl<'a> FwdReader<'a> {
    pub fn new(src: &'a [u8]) -> Self {
        FwdReader { src, pos: 0 }
    }
    pub fn read(&mut self, n: u32) -> Option<u64> {
        if n == 0 {
            return Some(0);
        }
        if self.pos + n as usize > self.src.len() * 8 {
            return None;
        }
        let mut v = 0u64;
        for i in 0..n as usize {
            let p = self.pos + i;
            let bit = (self.src[p / 8] >> (p % 8)) & 1;
            v |= (bit as u64) << i;
        }
        self.pos += n as usize;
        Some(v)
    }
    pub fn unread(&mut self, n: u32) {
        self.pos -= n as usize;
    }
    pub fn bits_read(&self) -> usize {
        self.pos
    }
    pub fn bytes_used(&self) -> usize {
        self.pos.div_ceil(8)
    }
}

#[derive(Default, Clone)]
pub struct FwdWriter {
    pub out: Vec<u8>,
    nbits: usize,
}

impl FwdWriter {
    pub fn new() -> Self {
        Self::default()
    }
    pub fn write(&mut self, v: u64, n: u32) {
        for i in 0..n as usize {
            let bit = ((v >> i) & 1) as u8;
            if self.nbits % 8 == 0 {
                self.out.push(0);
            }
            let last = self.out.len() - 1;
            self.out[last] |= bit << (self.nbits % 8);
            self.nbits += 1;
        }
    }
    pub fn bits(&self) -> usize {
        self.nbits
    }
    /// pad with zero bits to a byte boundary
    pub fn finish(self) -> Vec<u8> {
        self.out
    }
    /// append the end mark (a single 1 bit) and zero padding: a backward stream
    pub fn finish_with_mark(mut self) -> Vec<u8> {
        self.write(1, 1);
        self.out
    }
}

/// Backward bit stream reader. `remaining` may go negative (reads past the start return zeros).
pub struct BackReader<'a> {
    src: &'a [u8],
    pub remaining: i64,
}

impl<'a> BackReader<'a> {
    /// Err if the stream is empty or the last byte is zero (no end mark).
    pub fn new(src: &'a [u8]) -> Result<Self, String> {
        let last = *src.last().ok_or("empty backward bit stream")?;
        if last == 0 {
            return Err("backward bit stream: last byte is zero (no end mark)".into());
        }
        let hi = 7 - last.leading_zeros() as i64; // index of the mark bit
        Ok(BackReader {
            src,
            remaining: (src.len() as i64 - 1) * 8 + hi,
        })
    }
    pub fn read(&mut self, n: u32) -> u64 {
        let mut v = 0u64;
        for _ in 0..n {
            self.remaining -= 1;
            let bit = if self.remaining >= 0 {
                let p = self.remaining as usize;
                (self.src[p / 8] >> (p % 8)) & 1
            } else {
                0
            };
            v = (v << 1) | bit as u64;
        }
        v
    }
}
