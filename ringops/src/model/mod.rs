pub mod bits;
pub mod codes;
pub mod frame;
pub mod fse;
pub mod huf;
pub mod synth;
pub mod xxh64;
