//! XXH64 (independent implementation), see crate::xxh64
pub use crate::xxh64::*;
