//! Drivers for hostile input (C03): every decoding entry point with bounded output, and the
//! "same decoder is usable afterwards" check. FFI-free so the libFuzzer targets stay small.

use crate::model::frame;
use ruzstd::decoding::{BlockDecodingStrategy, Dictionary, FrameDecoder, StreamingDecoder};
use serde::{Deserialize, Serialize};
use std::io::{Read, Write};

pub const OUT_CAP: usize = 64 << 20;

#[derive(Clone, Debug, Serialize, Deserialize)]
pub enum Entry {
    Streaming { read: u32 },
    Blocks { strat: u8, n: u32, drain: u8 },
    FromTo { chunk: u32, target: u32 },
    DecodeAll { target: u32 },
    DecodeAllToVec { spare: u32 },
}

/// upper bound of what a frame can regenerate, from a scan of its block headers (cheap, no decoding)
pub fn output_bound(bytes: &[u8]) -> usize {
    let Ok(h) = frame::parse_header(bytes) else { return 0 };
    let mut p = h.header_len;
    let mut total = 0usize;
    let mut guard = 0;
    while p + 3 <= bytes.len() && guard < 1_000_000 {
        guard += 1;
        let bh = bytes[p] as u32 | (bytes[p + 1] as u32) << 8 | (bytes[p + 2] as u32) << 16;
        let ty = (bh >> 1) & 3;
        let size = (bh >> 3) as usize;
        total = total.saturating_add(match ty {
            0 | 1 => size,
            _ => 128 * 1024,
        });
        p += 3 + if ty == 1 { 1 } else { size };
        if bh & 1 == 1 {
            break;
        }
    }
    total
}

struct CapSink {
    taken: usize,
    per_call: usize,
}
impl Write for CapSink {
    fn write(&mut self, buf: &[u8]) -> std::io::Result<usize> {
        let n = buf.len().min(self.per_call.max(1));
        self.taken += n;
        Ok(n)
    }
    fn flush(&mut self) -> std::io::Result<()> {
        Ok(())
    }
}

const GOOD: [u8; 22] = [0x28, 0xB5, 0x2F, 0xFD, 0x24, 0x05, 0x29, 0x00, 0x00, b'h', b'e', b'l', b'l', b'o', 0, 0, 0, 0, 0, 0, 0, 0];

pub fn good_frame() -> Vec<u8> {
    // single segment, checksum, 5 bytes raw: "hello"
    let mut f = GOOD[..14].to_vec();
    f.extend_from_slice(&crate::xxh64::checksum32(b"hello").to_le_bytes());
    f
}

/// A valid frame that leaves every kind of per-frame state behind: Huffman literals with a new
/// table, all three sequence tables FSE-described (non-zero accuracy logs), repeat offsets moved,
/// a checksum. (frame bytes, content)
pub fn warm_frame() -> &'static (Vec<u8>, Vec<u8>) {
    use crate::model::synth::*;
    static W: std::sync::OnceLock<(Vec<u8>, Vec<u8>)> = std::sync::OnceLock::new();
    W.get_or_init(|| {
        let text: Vec<u8> = (0..400u32).map(|i| b"the quick brown fox jumps over the lazy dog, "[((i * 7 + i / 11) % 45) as usize]).collect();
        let seqs = (0..14u32)
            .map(|i| SeqSpec { ll: 3 + (i * 5) % 23, ml: 3 + (i * 11) % 40, off: if i % 4 == 0 { OffSpec::Rep(1 + (i / 4 % 3) as u8) } else { OffSpec::Frac((i * 4099) as u16) } })
            .collect();
        let spec = FrameSpec {
            single_segment: false,
            window_desc: 0x08,
            fcs_bytes: 0,
            checksum: true,
            dict_id_bytes: 0,
            zero_dict_id: false,
            blocks: vec![BlockSpec::Comp(CompSpec { literals: text, lit_mode: 2, lit_fmt: 0, huf_shape: 0, huf_fse: false, seqs, count_fmt: 0, modes: [2, 2, 2], tables: [(6, 11), (5, 12), (6, 13)] })],
        };
        let out = synth(&spec, None, false);
        (out.bytes, out.content)
    })
}

/// Decodes `warm_frame` completely on `dec` (what a long-lived decoder has behind it when the
/// hostile input arrives). Err = the valid warm-up frame itself was not decoded correctly.
pub fn warm_up(dec: &mut FrameDecoder) -> Result<(), String> {
    let (f, content) = warm_frame();
    let mut src = &f[..];
    dec.reset(&mut src).map_err(|e| format!("warm-up frame: reset: {e}"))?;
    dec.decode_blocks(&mut src, BlockDecodingStrategy::All).map_err(|e| format!("warm-up frame: {e}"))?;
    let out = dec.collect().unwrap_or_default();
    if &out != content {
        return Err(format!("warm-up frame decodes to {} bytes, expected {}", out.len(), content.len()));
    }
    Ok(())
}

/// drives one entry point; returns (reached block layer?, ended in error?)
pub fn drive(dec: &mut FrameDecoder, input: &[u8], entry: &Entry, bound: usize) -> (bool, bool) {
    let mut reached = false;
    let mut errored = false;
    let mut produced = 0usize;
    match entry {
        Entry::Streaming { read } => match StreamingDecoder::new_with_decoder(input, &mut *dec) {
            Err(_) => errored = true,
            Ok(mut sd) => {
                reached = true;
                let mut buf = vec![0u8; (*read as usize).max(1)];
                loop {
                    match sd.read(&mut buf) {
                        Ok(0) => break,
                        Ok(n) => {
                            produced += n;
                            if produced > OUT_CAP {
                                break;
                            }
                        }
                        Err(_) => {
                            errored = true;
                            break;
                        }
                    }
                }
            }
        },
        Entry::Blocks { strat, n, drain } => {
            let mut src = input;
            match dec.reset(&mut src) {
                Err(_) => errored = true,
                Ok(()) => {
                    reached = true;
                    let mut guard = 0u32;
                    while !dec.is_finished() {
                        guard += 1;
                        // `All` buffers the whole frame by contract: only when that is affordable
                        let s = match strat % 3 {
                            0 if bound <= OUT_CAP => BlockDecodingStrategy::All,
                            0 | 1 => BlockDecodingStrategy::UptoBlocks((*n as usize).min(256)),
                            _ => BlockDecodingStrategy::UptoBytes((*n as usize).min(OUT_CAP)),
                        };
                        if dec.decode_blocks(&mut src, s).is_err() {
                            errored = true;
                            break;
                        }
                        match drain % 4 {
                            0 => {
                                if let Some(v) = dec.collect() {
                                    produced += v.len();
                                }
                            }
                            1 => {
                                let mut buf = vec![0u8; 70_000];
                                while let Ok(k) = dec.read(&mut buf) {
                                    if k == 0 {
                                        break;
                                    }
                                    produced += k;
                                }
                            }
                            2 => {
                                let mut sink = CapSink { taken: 0, per_call: 1 + *n as usize };
                                let _ = dec.collect_to_writer(&mut sink);
                                produced += sink.taken;
                            }
                            _ => {
                                // no drain between calls, but never hold more than the cap
                                if dec.can_collect() > OUT_CAP {
                                    let _ = dec.collect();
                                }
                            }
                        }
                        if produced > OUT_CAP || guard > 2_000_000 {
                            break;
                        }
                    }
                    // caller may drain and query after an error
                    let _ = dec.can_collect();
                    let _ = dec.collect();
                    let _ = dec.get_calculated_checksum();
                    let _ = dec.bytes_read_from_source();
                }
            }
        }
        Entry::FromTo { chunk, target } => {
            let mut buf = vec![0u8; *target as usize];
            let mut pos = 0usize;
            let mut avail = (*chunk as usize).max(18).min(input.len());
            let mut idle = 0;
            loop {
                match dec.decode_from_to(&input[pos..avail], &mut buf) {
                    Err(_) => {
                        errored = true;
                        break;
                    }
                    Ok((r, w)) => {
                        reached = true;
                        if r > avail - pos {
                            // reported by C06; never index out of bounds here
                            break;
                        }
                        pos += r;
                        produced += w;
                        if dec.is_finished() && dec.can_collect() == 0 {
                            break;
                        }
                        if r == 0 && w == 0 {
                            if avail == input.len() {
                                idle += 1;
                                if idle > 2 {
                                    break;
                                }
                            }
                            avail = (avail + (*chunk as usize).max(1)).min(input.len());
                        } else if pos == avail {
                            avail = (avail + (*chunk as usize).max(1)).min(input.len());
                        }
                        if produced > OUT_CAP {
                            break;
                        }
                    }
                }
            }
        }
        Entry::DecodeAll { target } => {
            let mut out = vec![0u8; *target as usize];
            reached = true;
            if dec.decode_all(input, &mut out).is_err() {
                errored = true;
            }
        }
        Entry::DecodeAllToVec { spare } => {
            let mut out = Vec::with_capacity(*spare as usize);
            reached = true;
            if dec.decode_all_to_vec(input, &mut out).is_err() {
                errored = true;
            }
        }
    }
    (reached, errored)
}

/// Entry for the coverage-guided targets: decode `input` through `entry` (optionally with a
/// hostile dictionary that is registered if it parses), then require that the same decoder still
/// decodes a known-good frame. Panics of the crate under test propagate (libFuzzer sees them).
pub fn drive_and_reuse(input: &[u8], entry: &Entry, limit: Option<u64>, dict: Option<&[u8]>, warm: bool) -> Result<(), String> {
    let mut dec = FrameDecoder::new();
    if let Some(l) = limit {
        dec.set_max_window_size(l);
    } else if warm {
        warm_up(&mut dec)?;
    }
    let mut forced = None;
    if let Some(d) = dict {
        if let Ok(parsed) = Dictionary::decode_dict(d) {
            forced = Some(parsed.id);
            let _ = dec.add_dict(parsed);
        }
    }
    let bound = output_bound(input);
    if let (Some(id), Entry::Blocks { .. }) = (forced, entry) {
        // forced dictionary path: reset, force, decode
        let mut src = input;
        if dec.reset(&mut src).is_ok() {
            let _ = dec.force_dict(id);
            let mut guard = 0;
            while !dec.is_finished() && guard < 4096 {
                guard += 1;
                if dec.decode_blocks(&mut src, BlockDecodingStrategy::UptoBlocks(2)).is_err() {
                    break;
                }
                let _ = dec.collect();
            }
        }
    } else {
        drive(&mut dec, input, entry, bound);
    }
    let good = good_frame();
    let mut src = &good[..];
    match dec.reset(&mut src) {
        Ok(()) => {}
        Err(e) => {
            if limit.map(|l| l < 5).unwrap_or(false) {
                return Ok(());
            }
            return Err(format!("reset with a known-good frame fails after the hostile input: {e}"));
        }
    }
    dec.decode_blocks(&mut src, BlockDecodingStrategy::All).map_err(|e| format!("known-good frame fails after the hostile input: {e}"))?;
    let out = dec.collect().unwrap_or_default();
    if out != b"hello" || !dec.is_finished() {
        return Err(format!("known-good frame decodes to {out:?} after the hostile input"));
    }
    Ok(())
}

