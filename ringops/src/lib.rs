//! Operation lists over the hooked RingBuffer / DecodeBuffer and their interpreter against a
//! VecDeque model. Shared by the vcheck harness (proptest), the libFuzzer targets (ASan) and the
//! Miri replayer, so one op list means the same thing everywhere. No FFI dependencies.

use ruzstd::verif_hooks::{DecodeBuffer, RingBuffer};
use serde::{Deserialize, Serialize};
use std::collections::VecDeque;
use std::hash::Hasher;
use std::panic::{catch_unwind, AssertUnwindSafe};

pub mod decode_drive;
pub mod hexbytes;
pub mod model;
pub mod xxh64;

pub struct Rng(pub u64);
impl Rng {
    pub fn next(&mut self) -> u64 {
        self.0 = self.0.wrapping_add(0x9E3779B97F4A7C15);
        let mut z = self.0;
        z = (z ^ (z >> 30)).wrapping_mul(0xBF58476D1CE4E5B9);
        z = (z ^ (z >> 27)).wrapping_mul(0x94D049BB133111EB);
        z ^ (z >> 31)
    }
    pub fn below(&mut self, n: u64) -> u64 {
        if n == 0 {
            0
        } else {
            self.next() % n
        }
    }
}

/// operand size selector, resolved against the live (cap, head, tail)
#[derive(Clone, Copy, Debug, Serialize, Deserialize, PartialEq)]
pub enum Sz {
    /// literal value
    N(u32),
    /// free() + d
    Free(i8),
    /// len() + d (clamped at 0)
    Len(i8),
    /// bytes up to the physical end of the allocation from tail, + d
    ToWrap(i8),
    /// bytes from head to the physical end, + d
    HeadToWrap(i8),
}

#[derive(Clone, Debug, Serialize, Deserialize, PartialEq)]
pub enum Op {
    Reserve(Sz),
    Extend(Sz, u8),
    Fill(u8, Sz),
    /// len, reader chunk size, optional early EOF after that many bytes
    FromReader(Sz, u16, Option<u16>),
    /// start as fraction of len, length selector, use the unchecked variant (with its preconditions established)
    Within(u16, Sz, bool),
    DropFirst(Sz),
    Clear,
    PushBack(u8),
}

pub struct ChunkReader<'a> {
    pub data: &'a [u8],
    pub pos: usize,
    pub chunk: usize,
    pub eof_at: Option<usize>,
    /// set when the buffer handed to read() holds a byte with the top bit set: the ring op lists
    /// only ever write 7-bit data, so such a byte was never written by anybody (fresh heap memory
    /// as the checking allocator / ASan leave it). Looking at the target buffer is also what makes
    /// Miri see a never-written byte handed to a reader.
    pub foreign: Option<&'a std::cell::Cell<bool>>,
}
impl ruzstd::io::Read for ChunkReader<'_> {
    fn read(&mut self, buf: &mut [u8]) -> std::io::Result<usize> {
        let limit = self.eof_at.unwrap_or(self.data.len()).min(self.data.len());
        let n = buf.len().min(self.chunk).min(limit.saturating_sub(self.pos));
        let high = buf.iter().fold(0u8, |a, b| a | *b) & 0x80 != 0;
        if let (true, Some(f)) = (high, self.foreign) {
            f.set(true);
        }
        buf[..n].copy_from_slice(&self.data[self.pos..self.pos + n]);
        self.pos += n;
        Ok(n)
    }
}

fn resolve(s: Sz, rb: &RingBuffer, cap_limit: usize) -> usize {
    let (cap, head, tail) = rb.verif_state();
    let v = match s {
        Sz::N(n) => n as i64,
        Sz::Free(d) => rb.free() as i64 + d as i64,
        Sz::Len(d) => rb.len() as i64 + d as i64,
        Sz::ToWrap(d) => cap as i64 - tail as i64 + d as i64,
        Sz::HeadToWrap(d) => cap as i64 - head as i64 + d as i64,
    };
    (v.max(0) as usize).min(cap_limit)
}

/// failure codes (Copy, so they can leave the guarded allocator scope)
pub const F_CONTENT: u8 = 1;
pub const F_LEN: u8 = 2;
pub const F_FREE: u8 = 3;
pub const F_INVARIANT: u8 = 4;
pub const F_PANIC: u8 = 5;
pub const F_READER_ERR: u8 = 6;
pub const F_GET: u8 = 7;
pub const F_CAP_SHRANK: u8 = 8;
pub const F_FOREIGN: u8 = 9;

#[derive(Default, Clone, Copy)]
pub struct RbStats {
    pub wrapped_within: bool,
    pub case1: bool,
    pub case2: bool,
    pub case3: bool,
    pub two_step_dst: bool,
    pub two_step_src: bool,
    pub single_chunk: bool,
    pub multi_chunk: bool,
    pub memcpy_fallback: bool,
    pub exact_fill: bool,
    pub grew_wrapped: bool,
    pub reader_eof: bool,
}

fn check_state(rb: &RingBuffer, model: &VecDeque<u8>, last_cap: &mut usize) -> Option<u8> {
    let (cap, head, tail) = rb.verif_state();
    if cap < *last_cap {
        return Some(F_CAP_SHRANK);
    }
    *last_cap = cap;
    if cap == 0 {
        if head != 0 || tail != 0 {
            return Some(F_INVARIANT);
        }
    } else if head >= cap || tail >= cap {
        return Some(F_INVARIANT);
    }
    let (a, b) = rb.as_slices();
    if a.len() + b.len() != model.len() || rb.len() != model.len() {
        return Some(F_LEN);
    }
    if (tail == head) != model.is_empty() {
        return Some(F_INVARIANT);
    }
    let want_free = if cap == 0 { 0 } else { cap - 1 - model.len() };
    if rb.free() != want_free {
        return Some(F_FREE);
    }
    let (ma, mb) = model.as_slices();
    // compare as one logical sequence
    let mut it = ma.iter().chain(mb.iter());
    for x in a.iter().chain(b.iter()) {
        if Some(x) != it.next() {
            return Some(F_CONTENT);
        }
    }
    if !model.is_empty() {
        let idx = model.len() / 2;
        if rb.get(idx) != Some(model[idx]) || rb.get(model.len()).is_some() {
            return Some(F_GET);
        }
    }
    None
}

/// Executes the list; returns the first failing (op index, code). Pure function of `ops`.
pub fn exec_ring(ops: &[Op], cap_limit: usize, stats: &mut RbStats) -> Option<(u16, u8)> {
    let r = catch_unwind(AssertUnwindSafe(|| {
        let mut rb = RingBuffer::new();
        let mut model: VecDeque<u8> = VecDeque::new();
        let mut last_cap = 0usize;
        let mut gen = Rng(0x1234);
        for (i, op) in ops.iter().enumerate() {
            match op {
                Op::Reserve(s) => {
                    let n = resolve(*s, &rb, cap_limit);
                    let (_, h, t) = rb.verif_state();
                    if t < h && rb.free() < n {
                        stats.grew_wrapped = true;
                    }
                    rb.reserve(n);
                    if rb.free() < n {
                        return Some((i as u16, F_FREE));
                    }
                }
                Op::Extend(s, seed) => {
                    let n = resolve(*s, &rb, cap_limit);
                    let data: Vec<u8> = (0..n).map(|k| ((gen.next() as u8) ^ seed.wrapping_add(k as u8)) & 0x7F).collect();
                    if n == rb.free() && n > 0 {
                        stats.exact_fill = true;
                    }
                    rb.extend(&data);
                    model.extend(data.iter());
                }
                Op::Fill(b, s) => {
                    let n = resolve(*s, &rb, cap_limit);
                    rb.extend_and_fill(*b & 0x7F, n);
                    model.extend(std::iter::repeat(*b & 0x7F).take(n));
                }
                Op::FromReader(s, chunk, eof) => {
                    let n = resolve(*s, &rb, cap_limit);
                    let data: Vec<u8> = (0..n).map(|_| gen.next() as u8 & 0x7F).collect();
                    let eof_at = eof.map(|e| (e as usize).min(n));
                    let short = eof_at.map(|e| e < n).unwrap_or(false);
                    let foreign = std::cell::Cell::new(false);
                    let rd = ChunkReader {
                        data: &data,
                        pos: 0,
                        chunk: *chunk as usize,
                        eof_at,
                        foreign: Some(&foreign),
                    };
                    let res = rb.extend_from_reader(rd, n);
                    if foreign.get() {
                        return Some((i as u16, F_FOREIGN));
                    }
                    if short {
                        stats.reader_eof = true;
                        // a failed read must leave the queue unchanged
                        if res.is_ok() {
                            return Some((i as u16, F_READER_ERR));
                        }
                    } else {
                        if res.is_err() {
                            return Some((i as u16, F_READER_ERR));
                        }
                        model.extend(data.iter());
                    }
                }
                Op::Within(start_frac, s, unchecked) => {
                    let len = rb.len();
                    let start = ((*start_frac as usize) * (len + 1)) >> 16;
                    let n = resolve(*s, &rb, cap_limit).min(len - start);
                    if n == 0 && rb.verif_state().0 == 0 {
                        // zero-length copy on a never-allocated buffer: outside what the decoder does
                        // (execute_sequences skips zero-length matches)
                        continue;
                    }
                    // classification of the copy case (before the call)
                    if *unchecked {
                        rb.reserve(n);
                    } else if rb.free() < n {
                        // the checked variant reserves itself
                    }
                    let pre_reserved = rb.free() >= n;
                    let (cap, head, tail) = rb.verif_state();
                    if pre_reserved && n > 0 {
                        if head < tail {
                            stats.case1 = true;
                            if cap - tail < n {
                                stats.two_step_dst = true;
                                stats.wrapped_within = true;
                            }
                        } else if tail < head {
                            stats.wrapped_within = true;
                            if head + start > cap {
                                stats.case2 = true;
                            } else {
                                stats.case3 = true;
                                if cap - head - start < n {
                                    stats.two_step_src = true;
                                }
                            }
                        }
                        if n <= 16 {
                            stats.single_chunk = true;
                        } else {
                            stats.multi_chunk = true;
                        }
                    }
                    if *unchecked {
                        // preconditions exactly as DecodeBuffer::repeat establishes them
                        unsafe { rb.extend_from_within_unchecked(start, n) };
                    } else {
                        rb.extend_from_within(start, n);
                    }
                    for k in 0..n {
                        let b = model[start + k];
                        model.push_back(b);
                    }
                }
                Op::DropFirst(s) => {
                    let n = resolve(*s, &rb, cap_limit).min(rb.len());
                    // drop_first_n divides by cap: the decoder only calls it with data present
                    if n > 0 {
                        rb.drop_first_n(n);
                        model.drain(..n);
                    }
                }
                Op::Clear => {
                    rb.clear();
                    model.clear();
                }
                Op::PushBack(b) => {
                    rb.push_back(*b & 0x7F);
                    model.push_back(*b & 0x7F);
                }
            }
            if let Some(code) = check_state(&rb, &model, &mut last_cap) {
                return Some((i as u16, code));
            }
        }
        None
    }));
    match r {
        Ok(x) => x,
        Err(_) => Some((u16::MAX, F_PANIC)),
    }
}

pub fn code_name(c: u8) -> &'static str {
    match c {
        F_CONTENT => "ring_content_differs_from_queue",
        F_LEN => "ring_len_mismatch",
        F_FREE => "ring_free_mismatch",
        F_INVARIANT => "ring_position_invariant_broken",
        F_PANIC => "ring_panic",
        F_READER_ERR => "ring_reader_result",
        F_GET => "ring_get_mismatch",
        F_CAP_SHRANK => "ring_capacity_shrank",
        F_FOREIGN => "ring_hands_never_written_bytes_to_reader",
        _ => "ring_unknown",
    }
}

#[derive(Clone, Debug, Serialize, Deserialize, PartialEq)]
pub enum DOp {
    Push(u16, u8),
    /// offset as fraction of what is reachable (buffer + dictionary), or beyond it when `bad`
    Repeat { off: u16, len: u16, small_off: Option<u8>, bad: bool },
    Fill(u8, u16),
    FromReader(u16, u16),
    /// Read trait: retains the window
    Read(u16),
    ReadAll(u16),
    DrainToWindow,
    /// sink: accept `per_call` bytes per write (0 = everything), stop (Ok(0)) after `stop_after`, fail after `fail_after`
    DrainToWindowWriter { per_call: u16, stop_after: Option<u16>, fail_after: Option<u16> },
    DrainAll,
    DrainAllWriter { per_call: u16, stop_after: Option<u16>, fail_after: Option<u16> },
    Reset(u16),
}

#[derive(Clone, Debug, Serialize, Deserialize, PartialEq)]
pub struct DCase {
    pub window: u16,
    pub dict_len: u16,
    pub ops: Vec<DOp>,
}

struct Sink {
    got: Vec<u8>,
    per_call: usize,
    stop_after: Option<usize>,
    fail_after: Option<usize>,
}
impl ruzstd::io::Write for Sink {
    fn write(&mut self, buf: &[u8]) -> std::io::Result<usize> {
        if let Some(f) = self.fail_after {
            if self.got.len() >= f {
                return Err(std::io::Error::new(std::io::ErrorKind::Other, "sink failed"));
            }
        }
        let mut n = buf.len();
        if self.per_call > 0 {
            n = n.min(self.per_call);
        }
        if let Some(s) = self.stop_after {
            n = n.min(s.saturating_sub(self.got.len()));
        }
        if let Some(f) = self.fail_after {
            n = n.min(f - self.got.len());
        }
        self.got.extend_from_slice(&buf[..n]);
        Ok(n)
    }
    fn flush(&mut self) -> std::io::Result<()> {
        Ok(())
    }
}

pub fn exec_decodebuf(case: &DCase, msg: &mut String, feats: &mut Vec<&'static str>) -> Option<&'static str> {
    use ruzstd::io::Read;
    let mut window = case.window as usize;
    let mut db = DecodeBuffer::new(window);
    let mut gen = Rng(case.window as u64 * 77 + case.dict_len as u64);
    let dict: Vec<u8> = (0..case.dict_len).map(|_| gen.next() as u8 | 1).collect();
    db.dict_content.extend_from_slice(&dict);
    let mut has_dict = true;
    // model
    let mut held: Vec<u8> = vec![]; // bytes in the buffer
    let mut total_out: u64 = 0; // bytes produced by push/repeat (as the decoder counts frame output)
    let mut drained: Vec<u8> = vec![]; // everything handed out since the last reset, in order
    let mut finished = false; // after a full drain no further appends are legal
    macro_rules! bail {
        ($k:expr, $($a:tt)*) => {{ *msg = format!($($a)*); return Some($k); }};
    }
    for (i, op) in case.ops.iter().enumerate() {
        match op {
            DOp::Reset(w) => {
                window = *w as usize;
                db.reset(window);
                held.clear();
                drained.clear();
                total_out = 0;
                has_dict = false;
                finished = false;
                if !db.dict_content.is_empty() {
                    bail!("decodebuf_reset_keeps_dictionary", "op #{i}: dictionary content survives reset");
                }
                feats.push("dbuf:reset");
            }
            _ if finished => continue,
            DOp::Push(l, s) => {
                let data: Vec<u8> = (0..*l).map(|k| (gen.next() as u8) ^ s.wrapping_add(k as u8)).collect();
                db.push(&data);
                held.extend_from_slice(&data);
                total_out += data.len() as u64;
            }
            DOp::Fill(b, l) => {
                db.extend_and_fill(*b, *l as usize);
                held.resize(held.len() + *l as usize, *b);
            }
            DOp::FromReader(l, chunk) => {
                let data: Vec<u8> = (0..*l).map(|_| gen.next() as u8).collect();
                let rd = ChunkReader {
                    data: &data,
                    pos: 0,
                    chunk: *chunk as usize,
                    eof_at: None,
                    foreign: None,
                };
                if db.extend_from_reader(rd, *l as usize).is_err() {
                    bail!("decodebuf_reader", "op #{i}: extend_from_reader failed on a complete source");
                }
                held.extend_from_slice(&data);
            }
            DOp::Repeat { off, len, small_off, bad } => {
                let dict_avail = if has_dict && total_out <= window as u64 { dict.len() } else { 0 };
                let reach = held.len() + dict_avail;
                let len = *len as usize;
                if *bad {
                    // one past everything reachable: must be refused, nothing appended
                    let offset = held.len() + if has_dict { dict.len() } else { 0 } + 1 + (*off as usize % 3);
                    let before = db.len();
                    if db.repeat(offset, len.max(1)).is_ok() {
                        bail!("decodebuf_offset_beyond_accepted", "op #{i}: repeat(offset {offset}) beyond buffer {} + dictionary accepted", held.len());
                    }
                    if db.len() != before {
                        bail!("decodebuf_failed_repeat_changed_buffer", "op #{i}: failed repeat changed the buffer");
                    }
                    feats.push("dbuf:bad_offset_refused");
                    continue;
                }
                if reach == 0 {
                    continue;
                }
                let offset = match small_off {
                    Some(s) => (*s as usize).min(reach),
                    None => 1 + ((*off as usize * (reach - 1)) >> 16),
                };
                let offset = offset.max(1);
                // expected bytes: copy from (dict ++ held) at distance offset, byte by byte (overlap allowed)
                let mut virt: Vec<u8> = Vec::with_capacity(dict_avail + held.len() + len);
                virt.extend_from_slice(&dict[dict.len() - dict_avail..]);
                virt.extend_from_slice(&held);
                let base = virt.len() - offset;
                for k in 0..len {
                    let b = virt[base + k];
                    virt.push(b);
                }
                if offset > held.len() {
                    feats.push("dbuf:repeat_from_dict");
                    if len > offset - held.len() {
                        feats.push("dbuf:repeat_straddles_dict_boundary");
                    }
                } else if offset < len {
                    feats.push("dbuf:overlapping_repeat");
                }
                if let Err(e) = db.repeat(offset, len) {
                    bail!("decodebuf_valid_repeat_refused", "op #{i}: repeat(offset {offset}, len {len}) with {} held + {} dict refused: {e}", held.len(), dict_avail);
                }
                held.extend_from_slice(&virt[virt.len() - len..]);
                total_out += len as u64;
            }
            DOp::Read(n) => {
                let mut buf = vec![0xEEu8; *n as usize];
                let got = match db.read(&mut buf) {
                    Ok(g) => g,
                    Err(_) => bail!("decodebuf_read_error", "op #{i}: read failed"),
                };
                let can = held.len().saturating_sub(window);
                let want = can.min(*n as usize);
                if got != want || buf[..got] != held[..got] || buf[got..].iter().any(|&b| b != 0xEE) {
                    bail!("decodebuf_read_wrong", "op #{i}: read({n}) returned {got} bytes, expected {want} (window {window}, held {})", held.len());
                }
                drained.extend_from_slice(&held[..got]);
                held.drain(..got);
            }
            DOp::ReadAll(n) => {
                let mut buf = vec![0xEEu8; *n as usize];
                let got = db.read_all(&mut buf).unwrap_or(usize::MAX);
                let want = held.len().min(*n as usize);
                if got != want || buf[..got] != held[..got] {
                    bail!("decodebuf_read_all_wrong", "op #{i}: read_all({n}) returned {got}, expected {want}");
                }
                drained.extend_from_slice(&held[..got]);
                held.drain(..got);
                finished = true;
            }
            DOp::DrainToWindow => {
                let can = held.len().saturating_sub(window);
                let got = db.drain_to_window_size();
                match got {
                    None => {
                        if can != 0 {
                            bail!("decodebuf_drain_window_wrong", "op #{i}: drain_to_window_size returned None with {can} drainable");
                        }
                    }
                    Some(v) => {
                        if v.len() != can || v[..] != held[..can] {
                            bail!("decodebuf_drain_window_wrong", "op #{i}: drain_to_window_size returned {} bytes, expected {can}", v.len());
                        }
                        drained.extend_from_slice(&v);
                        held.drain(..can);
                    }
                }
            }
            DOp::DrainAll => {
                let v = db.drain();
                if v != held {
                    bail!("decodebuf_drain_wrong", "op #{i}: drain returned {} bytes, expected {}", v.len(), held.len());
                }
                drained.extend_from_slice(&v);
                held.clear();
                finished = true;
            }
            DOp::DrainToWindowWriter { per_call, stop_after, fail_after } | DOp::DrainAllWriter { per_call, stop_after, fail_after } => {
                let all = matches!(op, DOp::DrainAllWriter { .. });
                let can = if all { held.len() } else { held.len().saturating_sub(window) };
                let mut sink = Sink {
                    got: vec![],
                    per_call: *per_call as usize,
                    stop_after: stop_after.map(|x| x as usize),
                    fail_after: fail_after.map(|x| x as usize),
                };
                let res = if all { db.drain_to_writer(&mut sink) } else { db.drain_to_window_size_writer(&mut sink) };
                let took = sink.got.len();
                if took > can || sink.got[..] != held[..took] {
                    bail!("decodebuf_writer_bytes_wrong", "op #{i}: sink received {took} bytes that are not the next {can} drainable bytes");
                }
                match res {
                    Ok(n) => {
                        if n != took {
                            bail!("decodebuf_writer_count_wrong", "op #{i}: drain reported {n} bytes, sink took {took}");
                        }
                        let limited = stop_after.map(|s| (s as usize) < can).unwrap_or(false);
                        if took != can && !limited {
                            bail!("decodebuf_writer_short", "op #{i}: drained {took} of {can} although the sink accepted everything");
                        }
                    }
                    Err(_) => {
                        if fail_after.is_none() {
                            bail!("decodebuf_writer_spurious_error", "op #{i}: drain failed although the sink never failed");
                        }
                        feats.push("dbuf:sink_failed");
                    }
                }
                if took < can {
                    feats.push("dbuf:partial_sink");
                }
                drained.extend_from_slice(&held[..took]);
                held.drain(..took);
                if all && held.is_empty() {
                    finished = true;
                }
            }
        }
        // state comparison after every op
        let ring = db.verif_ring();
        let (a, b) = ring.as_slices();
        if a.len() + b.len() != held.len() || db.len() != held.len() {
            bail!("decodebuf_len_mismatch", "op #{i} ({op:?}): buffer holds {} bytes, model {}", db.len(), held.len());
        }
        if a != &held[..a.len()] || b != &held[a.len()..] {
            bail!("decodebuf_content_mismatch", "op #{i} ({op:?}): buffer content differs from the queue model");
        }
        if !b.is_empty() {
            feats.push("dbuf:wrapped");
        }
        let want_hash = crate::xxh64::xxh64(&drained, 0);
        if db.hash.finish() != want_hash {
            bail!("decodebuf_hash_mismatch", "op #{i} ({op:?}): running hash is not XXH64 of the {} bytes handed out", drained.len());
        }
    }
    None
}


/// Decode arbitrary bytes into a ring op list (fuzz targets): 4 bytes per op.
pub fn ops_from_bytes(data: &[u8]) -> Vec<Op> {
    let sz = |k: u8, v: u8| -> Sz {
        match k % 6 {
            0 => Sz::N(v as u32),
            1 => Sz::N(v as u32 * 17),
            2 => Sz::Free((v % 5) as i8 - 2),
            3 => Sz::Len((v % 20) as i8 - 17),
            4 => Sz::ToWrap((v % 35) as i8 - 17),
            _ => Sz::HeadToWrap((v % 35) as i8 - 17),
        }
    };
    data.chunks_exact(4)
        .take(200)
        .map(|c| match c[0] % 12 {
            0 => Op::Reserve(sz(c[1], c[2])),
            1 | 2 => Op::Extend(sz(c[1], c[2]), c[3]),
            3 => Op::Fill(c[3], sz(c[1], c[2])),
            4 => Op::FromReader(sz(c[1], c[2]), 1 + (c[3] % 64) as u16, if c[3] & 0x80 != 0 { Some((c[3] & 0x3F) as u16) } else { None }),
            5 | 6 | 7 | 8 => Op::Within(((c[1] as u16) << 8) | c[3] as u16, sz(c[2] >> 4, c[2].wrapping_mul(c[3] | 1)), c[0] & 0x80 != 0),
            9 | 10 => Op::DropFirst(sz(c[1], c[2])),
            _ => {
                if c[1] & 1 == 0 {
                    Op::Clear
                } else {
                    Op::PushBack(c[2])
                }
            }
        })
        .collect()
}

/// Decode arbitrary bytes into a DecodeBuffer case (fuzz targets).
pub fn dcase_from_bytes(data: &[u8]) -> Option<DCase> {
    if data.len() < 4 {
        return None;
    }
    let window = u16::from_le_bytes([data[0], data[1]]) % 2049;
    let dict_len = u16::from_le_bytes([data[2], data[3]]) % 2049;
    let ops = data[4..]
        .chunks_exact(5)
        .take(120)
        .map(|c| {
            let n = u16::from_le_bytes([c[1], c[2]]) % 5001;
            let sink = |c: &[u8]| (c[3] as u16 * 7, if c[4] & 1 != 0 { Some(n % 701) } else { None }, if c[4] & 2 != 0 { Some((c[3] as u16 * 3) % 701) } else { None });
            match c[0] % 16 {
                0 | 1 | 2 => DOp::Push(n, c[3]),
                3 | 4 | 5 | 6 | 7 => DOp::Repeat { off: u16::from_le_bytes([c[3], c[4]]), len: n, small_off: if c[0] & 0x80 != 0 { Some(1 + c[3] % 20) } else { None }, bad: c[0] & 0x70 == 0x70 },
                8 => DOp::Fill(c[3], n),
                9 => DOp::FromReader(n, 1 + (c[3] % 64) as u16),
                10 | 11 => DOp::Read(n),
                12 => DOp::DrainToWindow,
                13 => {
                    let (per_call, stop_after, fail_after) = sink(c);
                    DOp::DrainToWindowWriter { per_call, stop_after, fail_after }
                }
                14 => {
                    if c[3] & 1 == 0 {
                        DOp::ReadAll(n)
                    } else {
                        let (per_call, stop_after, fail_after) = sink(c);
                        DOp::DrainAllWriter { per_call, stop_after, fail_after }
                    }
                }
                _ => {
                    if c[3] & 3 == 0 {
                        DOp::Reset(n % 3001)
                    } else {
                        DOp::DrainAll
                    }
                }
            }
        })
        .collect();
    Some(DCase { window, dict_len, ops })
}
