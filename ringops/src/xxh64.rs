//! XXH64 written from the published algorithm description (independent of twox-hash).

const P1: u64 = 0x9E3779B185EBCA87;
const P2: u64 = 0xC2B2AE3D27D4EB4F;
const P3: u64 = 0x165667B19E3779F9;
const P4: u64 = 0x85EBCA77C2B2AE63;
const P5: u64 = 0x27D4EB2F165667C5;

fn round(acc: u64, input: u64) -> u64 {
    acc.wrapping_add(input.wrapping_mul(P2))
        .rotate_left(31)
        .wrapping_mul(P1)
}

fn merge(acc: u64, val: u64) -> u64 {
    (acc ^ round(0, val)).wrapping_mul(P1).wrapping_add(P4)
}

fn r64(b: &[u8]) -> u64 {
    u64::from_le_bytes(b[..8].try_into().unwrap())
}

pub fn xxh64(data: &[u8], seed: u64) -> u64 {
    let len = data.len();
    let mut p = data;
    let mut h: u64;
    if len >= 32 {
        let mut v1 = seed.wrapping_add(P1).wrapping_add(P2);
        let mut v2 = seed.wrapping_add(P2);
        let mut v3 = seed;
        let mut v4 = seed.wrapping_sub(P1);
        while p.len() >= 32 {
            v1 = round(v1, r64(&p[0..]));
            v2 = round(v2, r64(&p[8..]));
            v3 = round(v3, r64(&p[16..]));
            v4 = round(v4, r64(&p[24..]));
            p = &p[32..];
        }
        h = v1
            .rotate_left(1)
            .wrapping_add(v2.rotate_left(7))
            .wrapping_add(v3.rotate_left(12))
            .wrapping_add(v4.rotate_left(18));
        h = merge(h, v1);
        h = merge(h, v2);
        h = merge(h, v3);
        h = merge(h, v4);
    } else {
        h = seed.wrapping_add(P5);
    }
    h = h.wrapping_add(len as u64);
    while p.len() >= 8 {
        h ^= round(0, r64(p));
        h = h.rotate_left(27).wrapping_mul(P1).wrapping_add(P4);
        p = &p[8..];
    }
    if p.len() >= 4 {
        h ^= (u32::from_le_bytes(p[..4].try_into().unwrap()) as u64).wrapping_mul(P1);
        h = h.rotate_left(23).wrapping_mul(P2).wrapping_add(P3);
        p = &p[4..];
    }
    for &b in p {
        h ^= (b as u64).wrapping_mul(P5);
        h = h.rotate_left(11).wrapping_mul(P1);
    }
    h ^= h >> 33;
    h = h.wrapping_mul(P2);
    h ^= h >> 29;
    h = h.wrapping_mul(P3);
    h ^= h >> 32;
    h
}

/// the 32-bit content checksum of a zstd frame
pub fn checksum32(data: &[u8]) -> u32 {
    xxh64(data, 0) as u32
}

pub fn selftest() -> Result<(), String> {
    let cases: [(&[u8], u64, u64); 4] = [
        (b"", 0, 0xEF46DB3751D8E999),
        (b"a", 0, 0xD24EC4F1A98C6E5B),
        (b"abc", 0, 0x44BC2CF5AD770999),
        (b"Nobody inspects the spammish repetition", 0, 0xFBCEA83C8A378BF1),
    ];
    for (d, s, want) in cases {
        let got = xxh64(d, s);
        if got != want {
            return Err(format!("xxh64({:?}) = {got:#x}, want {want:#x}", String::from_utf8_lossy(d)));
        }
    }
    Ok(())
}
