//! C18 driver: built four times ({std, no_std} x {hash, no hash}) against /repo; runs the same
//! operations over a corpus directory and prints one line per (item, operation).
//! The binary itself uses std for file I/O; only the *library* is built with or without its std
//! feature, which selects between std::io and the crate's hand-written io_nostd traits.

use ruzstd::decoding::{BlockDecodingStrategy, FrameDecoder, StreamingDecoder};
use ruzstd::encoding::{CompressionLevel, FrameCompressor};
use ruzstd::io::{Error, Read, Write};
use std::panic::{catch_unwind, AssertUnwindSafe};

fn fnv(b: &[u8]) -> u64 {
    let mut h = 0xcbf29ce484222325u64;
    for &x in b {
        h = (h ^ x as u64).wrapping_mul(0x100000001b3);
    }
    h ^ (b.len() as u64).wrapping_mul(0x9E3779B97F4A7C15)
}

/// source that fragments reads by a pattern
struct Frag<'a> {
    data: &'a [u8],
    pos: usize,
    pattern: &'a [usize],
    calls: usize,
}
impl Read for Frag<'_> {
    fn read(&mut self, buf: &mut [u8]) -> Result<usize, Error> {
        let want = if self.pattern.is_empty() { buf.len() } else { self.pattern[self.calls % self.pattern.len()].max(1) };
        self.calls += 1;
        let n = want.min(buf.len()).min(self.data.len() - self.pos);
        buf[..n].copy_from_slice(&self.data[self.pos..self.pos + n]);
        self.pos += n;
        Ok(n)
    }
}

/// source whose every third read call is "interrupted" (EINTR): read_exact has to retry those
struct Stutter<'a> {
    data: &'a [u8],
    pos: usize,
    calls: usize,
    chunk: usize,
}
impl Read for Stutter<'_> {
    fn read(&mut self, buf: &mut [u8]) -> Result<usize, Error> {
        self.calls += 1;
        if self.calls % 3 == 2 {
            return Err(Error::from(ruzstd::io::ErrorKind::Interrupted));
        }
        let n = buf.len().min(self.chunk.max(1)).min(self.data.len() - self.pos);
        buf[..n].copy_from_slice(&self.data[self.pos..self.pos + n]);
        self.pos += n;
        Ok(n)
    }
}

/// sink accepting `per_call` bytes per write
struct SlowSink {
    out: Vec<u8>,
    per_call: usize,
}
impl Write for SlowSink {
    fn write(&mut self, buf: &[u8]) -> Result<usize, Error> {
        let n = buf.len().min(self.per_call.max(1));
        self.out.extend_from_slice(&buf[..n]);
        Ok(n)
    }
    fn flush(&mut self) -> Result<(), Error> {
        Ok(())
    }
}

fn level(l: usize) -> CompressionLevel {
    if l == 0 {
        CompressionLevel::Uncompressed
    } else {
        CompressionLevel::Fastest
    }
}

/// frame digest with the checksum flag cleared and the 4 trailing bytes removed when it was set
fn normalized(frame: &[u8]) -> (u64, bool) {
    if frame.len() >= 9 && frame[4] & 4 != 0 {
        let mut f = frame[..frame.len() - 4].to_vec();
        f[4] &= !4;
        (fnv(&f), true)
    } else {
        (fnv(frame), false)
    }
}

/// Hash builds: does the four-byte trailer equal the checksum this build's decoder computes over the
/// decoded frame ("ok" / "WRONG")? No-hash builds: "na" (no trailer is written, none is computed).
#[cfg(feature = "hash")]
fn trailer(frame: &[u8]) -> &'static str {
    let mut dec = FrameDecoder::new();
    let mut src = frame;
    if dec.reset(&mut src).is_err() || dec.decode_blocks(&mut src, BlockDecodingStrategy::All).is_err() {
        return "undecodable";
    }
    // (the decoder hashes what it hands out)
    let _ = dec.collect();
    match (dec.get_checksum_from_data(), dec.get_calculated_checksum()) {
        (Some(a), Some(b)) if a == b => "ok",
        (None, _) => "absent",
        _ => "WRONG",
    }
}
#[cfg(not(feature = "hash"))]
fn trailer(_frame: &[u8]) -> &'static str {
    "na"
}

fn report(item: &str, op: &str, r: std::thread::Result<Result<String, String>>) {
    match r {
        Ok(Ok(s)) => println!("{item} {op} ok {s}"),
        Ok(Err(e)) => println!("{item} {op} err {e}"),
        Err(_) => println!("{item} {op} panic -"),
    }
}

fn compress_ops(item: &str, data: &[u8], pattern: &[usize]) {
    for l in 0..2 {
        // (a) fragmenting reader -> Vec
        report(item, &format!("compress{l}:frag->vec"), catch_unwind(AssertUnwindSafe(|| {
            let mut c = FrameCompressor::new(level(l));
            c.set_source(Frag { data, pos: 0, pattern, calls: 0 });
            c.set_drain(Vec::new());
            c.compress();
            let out = c.take_drain().unwrap();
            let (n, ck) = normalized(&out);
            Ok(format!("raw={:016x} norm={:016x} checksum={} len={} trailer={}", fnv(&out), n, ck, out.len(), trailer(&out)))
        })));
        // (b) Read::take with the limit inside the data
        let limit = (data.len() as u64 * 2 / 3).max(1);
        report(item, &format!("compress{l}:take({limit})->vec"), catch_unwind(AssertUnwindSafe(|| {
            let mut c = FrameCompressor::new(level(l));
            c.set_source(Frag { data, pos: 0, pattern, calls: 0 }.take(limit));
            c.set_drain(Vec::new());
            c.compress();
            let out = c.take_drain().unwrap();
            let (n, ck) = normalized(&out);
            Ok(format!("raw={:016x} norm={:016x} checksum={} len={} trailer={}", fnv(&out), n, ck, out.len(), trailer(&out)))
        })));
        // (a') a REUSED compressor: a first frame (text-like warm-up with a Huffman table, or the item
        // itself) and then the item; the second frame is reported. Per-frame state must be reset the
        // same way in every build
        for (name, warm) in [("text", warm_text()), ("itself", data.to_vec())] {
            report(item, &format!("compress{l}:reused(after_{name})"), catch_unwind(AssertUnwindSafe(|| {
                let mut c = FrameCompressor::new(level(l));
                c.set_source(Frag { data: &warm, pos: 0, pattern: &[], calls: 0 });
                c.set_drain(Vec::new());
                c.compress();
                let first = c.take_drain().unwrap();
                c.set_source(Frag { data, pos: 0, pattern, calls: 0 });
                c.set_drain(Vec::new());
                c.compress();
                let out = c.take_drain().unwrap();
                let (n, ck) = normalized(&out);
                Ok(format!("raw={:016x} norm={:016x} checksum={} len={} first_len={} trailer={}", fnv(&out), n, ck, out.len(), first.len() - if ck { 4 } else { 0 }, trailer(&out)))
            })));
        }
        // (c) &mut [u8] sink that is large enough, and one that fills up (write_all must fail -> the
        // compressor's unwrap panics in every build alike)
        for name in ["slice_fits", "slice_full"] {
            report(item, &format!("compress{l}:frag->{name}"), catch_unwind(AssertUnwindSafe(|| {
                // the sink that fills up holds half of the frame *without* its checksum, so that it is
                // too small in every build alike (a size derived from the input length can fit the
                // no-hash frame of compressible data and not the four bytes longer hash frame)
                let cap = if name == "slice_fits" {
                    data.len() + data.len() / 100 + 64
                } else {
                    let mut c = FrameCompressor::new(level(l));
                    c.set_source(data);
                    c.set_drain(Vec::new());
                    c.compress();
                    let full = c.take_drain().unwrap();
                    let with_checksum = full.len() > 4 && full[4] & 4 != 0;
                    (full.len() - if with_checksum { 4 } else { 0 }) / 2
                };
                let mut buf = vec![0xEEu8; cap];
                let left;
                {
                    let mut c = FrameCompressor::new(level(l));
                    c.set_source(Frag { data, pos: 0, pattern, calls: 0 });
                    c.set_drain(&mut buf[..]);
                    c.compress();
                    left = c.take_drain().unwrap().len();
                }
                let out = &buf[..cap - left];
                let (n, ck) = normalized(out);
                Ok(format!("raw={:016x} norm={:016x} checksum={} len={}", fnv(out), n, ck, out.len()))
            })));
        }
    }
}

/// 6000 bytes of text-like data: enough literals with a skewed distribution for a Huffman table
fn warm_text() -> Vec<u8> {
    let words: [&[u8]; 8] = [b"the ", b"quick ", b"brown ", b"fox ", b"jumps ", b"over ", b"lazy ", b"dogs. "];
    let mut out = Vec::with_capacity(6100);
    let mut x = 0x2545F4914F6CDD1Du64;
    while out.len() < 6000 {
        x ^= x << 13;
        x ^= x >> 7;
        x ^= x << 17;
        out.extend_from_slice(words[(x % 8) as usize]);
        out.push(b'a' + (x >> 8) as u8 % 26);
    }
    out.truncate(6000);
    out
}

/// single segment, checksummed frame with one raw block "warm-up!" (checksum bytes precomputed:
/// XXH64("warm-up!") & 0xFFFFFFFF is only needed by builds that verify nothing, so any value works
/// for the decoder - it never compares; the stored value is reported by accessor only)
const WARM_FRAME: [u8; 21] = [0x28, 0xB5, 0x2F, 0xFD, 0x24, 8, 0x41, 0, 0, b'w', b'a', b'r', b'm', b'-', b'u', b'p', b'!', 1, 2, 3, 4];

fn decode_ops(item: &str, frame: &[u8], pattern: &[usize], expect_len: usize) {
    // a REUSED decoder: a complete checksummed frame (or the item itself) first, then the item
    for name in ["warm_frame", "itself"] {
        report(item, &format!("decode:reused(after_{name})"), catch_unwind(AssertUnwindSafe(|| {
            let mut dec = FrameDecoder::new();
            let mut out = vec![0u8; expect_len + 16];
            let first: &[u8] = if name == "itself" { frame } else { &WARM_FRAME };
            let _ = dec.decode_all(first, &mut out);
            let mut src = Frag { data: frame, pos: 0, pattern, calls: 0 };
            dec.reset(&mut src).map_err(|e| class(&format!("{e:?}")))?;
            let mut got = vec![];
            while !dec.is_finished() {
                dec.decode_blocks(&mut src, BlockDecodingStrategy::UptoBlocks(2)).map_err(|e| class(&format!("{e:?}")))?;
                if let Some(v) = dec.collect() {
                    got.extend_from_slice(&v);
                }
            }
            Ok(format!("data={:016x} len={} consumed={}", fnv(&got), got.len(), dec.bytes_read_from_source()))
        })));
    }
    report(item, "decode_all", catch_unwind(AssertUnwindSafe(|| {
        let mut dec = FrameDecoder::new();
        let mut out = vec![0u8; expect_len + 16];
        let n = dec.decode_all(frame, &mut out).map_err(|e| format!("{}", class(&format!("{e:?}"))))?;
        Ok(format!("data={:016x} len={n}", fnv(&out[..n])))
    })));
    report(item, "decode_blocks+collect_to_writer", catch_unwind(AssertUnwindSafe(|| {
        let mut dec = FrameDecoder::new();
        let mut src = Frag { data: frame, pos: 0, pattern, calls: 0 };
        dec.reset(&mut src).map_err(|e| class(&format!("{e:?}")))?;
        let mut sink = SlowSink { out: vec![], per_call: 1 + pattern.first().copied().unwrap_or(4000) };
        while !dec.is_finished() {
            dec.decode_blocks(&mut src, BlockDecodingStrategy::UptoBlocks(1)).map_err(|e| class(&format!("{e:?}")))?;
            while dec.can_collect() > 0 {
                dec.collect_to_writer(&mut sink).map_err(|e| format!("sink:{e}"))?;
            }
        }
        Ok(format!("data={:016x} len={} consumed={}", fnv(&sink.out), sink.out.len(), dec.bytes_read_from_source()))
    })));
    // a source that reports EINTR now and then: std's read_exact retries, the crate's own must too
    report(item, "decode_blocks:interrupting_reader", catch_unwind(AssertUnwindSafe(|| {
        let mut dec = FrameDecoder::new();
        let mut src = Stutter { data: frame, pos: 0, calls: 0, chunk: 1 + pattern.first().copied().unwrap_or(5000) };
        dec.reset(&mut src).map_err(|e| class(&format!("{e:?}")))?;
        let mut got = vec![];
        while !dec.is_finished() {
            dec.decode_blocks(&mut src, BlockDecodingStrategy::UptoBlocks(1)).map_err(|e| class(&format!("{e:?}")))?;
            if let Some(v) = dec.collect() {
                got.extend_from_slice(&v);
            }
        }
        Ok(format!("data={:016x} len={} consumed={}", fnv(&got), got.len(), dec.bytes_read_from_source()))
    })));
    report(item, "streaming", catch_unwind(AssertUnwindSafe(|| {
        let mut sd = StreamingDecoder::new(Frag { data: frame, pos: 0, pattern, calls: 0 }).map_err(|e| class(&format!("{e:?}")))?;
        let mut out = vec![];
        let mut buf = vec![0u8; 1 + pattern.get(1).copied().unwrap_or(777)];
        loop {
            let n = sd.read(&mut buf).map_err(|_| "read-error".to_string())?;
            if n == 0 {
                break;
            }
            out.extend_from_slice(&buf[..n]);
        }
        Ok(format!("data={:016x} len={}", fnv(&out), out.len()))
    })));
    // read_exact over the decoded stream: exact chunks, then one byte too many (EOF inside read_exact)
    report(item, "streaming:read_exact", catch_unwind(AssertUnwindSafe(|| {
        let mut sd = StreamingDecoder::new(Frag { data: frame, pos: 0, pattern, calls: 0 }).map_err(|e| class(&format!("{e:?}")))?;
        let mut out = vec![0u8; expect_len];
        let half = expect_len / 2;
        sd.read_exact(&mut out[..half]).map_err(|_| "read_exact-1".to_string())?;
        sd.read_exact(&mut out[half..]).map_err(|_| "read_exact-2".to_string())?;
        let mut one = [0u8; 1];
        let eof = sd.read_exact(&mut one).is_err();
        Ok(format!("data={:016x} len={} eof_error={eof}", fnv(&out), out.len()))
    })));
    // read_to_end (std's own vs the crate's io_nostd default method): on success the data is fully
    // determined; when the stream fails the amount read before the failure depends on the buffer
    // schedule of the read_to_end implementation, so only the failure itself is reported
    report(item, "take(all)+read_to_end", catch_unwind(AssertUnwindSafe(|| {
        let limit = frame.len() as u64 + 5;
        let mut sd = StreamingDecoder::new(Frag { data: frame, pos: 0, pattern, calls: 0 }.take(limit)).map_err(|e| class(&format!("{e:?}")))?;
        // read_to_end APPENDS: the destination already holds something (the digest covers it)
        let mut out = vec![0xAB, 0xCD, 0xEF];
        match sd.read_to_end(&mut out).map(|_| ()) {
            Ok(()) => Ok(format!("data={:016x} len={}", fnv(&out), out.len())),
            Err(_) => Err("read_to_end-error".to_string()),
        }
    })));
    // take with the limit 3 bytes before the end of the source, explicit read loop (fixed schedule)
    report(item, "take(short)+read_loop", catch_unwind(AssertUnwindSafe(|| {
        let limit = (frame.len() as u64).saturating_sub(3);
        let mut sd = StreamingDecoder::new(Frag { data: frame, pos: 0, pattern, calls: 0 }.take(limit)).map_err(|e| class(&format!("{e:?}")))?;
        let mut out = vec![];
        let mut buf = [0u8; 1000];
        let mut failed = false;
        loop {
            match sd.read(&mut buf) {
                Ok(0) => break,
                Ok(n) => out.extend_from_slice(&buf[..n]),
                Err(_) => {
                    failed = true;
                    break;
                }
            }
        }
        Ok(format!("data={:016x} len={} failed={failed}", fnv(&out), out.len()))
    })));
}

/// error class: the outermost variant name (Debug text differs in nested io errors between builds)
fn class(dbg: &str) -> String {
    dbg.chars().take_while(|c| c.is_ascii_alphanumeric()).collect()
}

fn main() {
    let dir = std::env::args().nth(1).expect("corpus directory");
    let manifest = std::fs::read_to_string(format!("{dir}/manifest.txt")).expect("manifest");
    // manifest line: <name> <kind: in|fr> <expect_len> <pattern comma separated or ->
    for line in manifest.lines() {
        let f: Vec<&str> = line.split_whitespace().collect();
        if f.len() < 4 {
            continue;
        }
        let data = std::fs::read(format!("{dir}/{}", f[0])).expect("item");
        let expect_len: usize = f[2].parse().unwrap_or(0);
        let pattern: Vec<usize> = if f[3] == "-" { vec![] } else { f[3].split(',').filter_map(|x| x.parse().ok()).collect() };
        std::panic::set_hook(Box::new(|_| {}));
        if f[1] == "in" {
            compress_ops(f[0], &data, &pattern);
        } else {
            decode_ops(f[0], &data, &pattern, expect_len);
        }
    }
}
