#![no_main]
//! bytes -> (entry point, strategy, read sizes, window limit) + payload -> every decoding entry point,
//! then the same decoder must decode a known-good frame.
use libfuzzer_sys::fuzz_target;
use ringops::decode_drive::{drive_and_reuse, Entry};

fuzz_target!(|data: &[u8]| {
    if data.len() < 8 {
        return;
    }
    let s = &data[..8];
    let n = u32::from_le_bytes([s[1], s[2], s[3], 0]);
    let entry = match s[0] % 5 {
        0 => Entry::Streaming { read: 1 + n % 70_000 },
        1 => Entry::Blocks { strat: s[4], n: n % 200_000, drain: s[5] },
        2 => Entry::FromTo { chunk: 1 + n % 70_000, target: u16::from_le_bytes([s[4], s[5]]) as u32 },
        3 => Entry::DecodeAll { target: n % 300_000 },
        _ => Entry::DecodeAllToVec { spare: n % 300_000 },
    };
    let limit = match s[6] % 4 {
        0 => Some(0),
        1 => Some(1024 << (s[7] % 16)),
        _ => None,
    };
    if let Err(e) = drive_and_reuse(&data[8..], &entry, limit, None, s[6] & 0x80 != 0) {
        panic!("C03: {e}");
    }
});
