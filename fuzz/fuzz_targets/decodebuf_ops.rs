#![no_main]
use libfuzzer_sys::fuzz_target;
use ringops::*;

fuzz_target!(|data: &[u8]| {
    if let Some(case) = dcase_from_bytes(data) {
        let mut msg = String::new();
        let mut feats = vec![];
        if let Some(kind) = exec_decodebuf(&case, &mut msg, &mut feats) {
            panic!("C04 decode buffer: {kind}: {msg}; {case:?}");
        }
    }
});
