#![no_main]
//! bytes -> (dictionary bytes, frame bytes): dictionary parser on arbitrary input; if it parses,
//! the frame is decoded with the (hostile) dictionary registered and forced.
use libfuzzer_sys::fuzz_target;
use ringops::decode_drive::{drive_and_reuse, Entry};

fuzz_target!(|data: &[u8]| {
    if data.len() < 3 {
        return;
    }
    let l = (u16::from_le_bytes([data[0], data[1]]) as usize).min(data.len() - 3);
    let dict = &data[3..3 + l];
    let frame = &data[3 + l..];
    let entry = if data[2] & 1 == 0 { Entry::Blocks { strat: 1, n: 2, drain: data[2] >> 1 } } else { Entry::DecodeAll { target: 100_000 } };
    if let Err(e) = drive_and_reuse(frame, &entry, None, Some(dict), data[2] & 0x80 != 0) {
        panic!("C03: {e}");
    }
});
