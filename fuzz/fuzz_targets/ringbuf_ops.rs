#![no_main]
//! bytes -> ring op list -> interpreter vs VecDeque model, under ASan + debug assertions
use libfuzzer_sys::fuzz_target;
use ringops::*;

fuzz_target!(|data: &[u8]| {
    let ops = ops_from_bytes(data);
    let mut st = RbStats::default();
    if let Some((i, code)) = exec_ring(&ops, 1 << 12, &mut st) {
        panic!("C04 ring: {} at op #{i}: {ops:?}", code_name(code));
    }
});
