#![no_main]
//! bytes -> arbitrary-decoded frame spec -> synthesizer (valid frame using rare format features)
//! -> byte-level havoc -> every decoding entry point.
use arbitrary::Unstructured;
use libfuzzer_sys::fuzz_target;
use ringops::model::synth::*;
use ringops::decode_drive::{drive_and_reuse, Entry};

fn off(u: &mut Unstructured) -> arbitrary::Result<OffSpec> {
    Ok(match u.int_in_range(0..=4)? {
        0 => OffSpec::Rep(u.int_in_range(1..=3)?),
        1 => OffSpec::Frac(u.arbitrary()?),
        2 => OffSpec::FromFar(u.int_in_range(0..=8)?),
        3 => OffSpec::Abs(u.int_in_range(1..=70_000)?),
        _ => OffSpec::Abs(1 << u.int_in_range(0..=17)?),
    })
}

fn comp(u: &mut Unstructured) -> arbitrary::Result<CompSpec> {
    let nlit = u.int_in_range(0..=400)?;
    let alpha: u8 = u.int_in_range(1..=255)?;
    let literals: Vec<u8> = (0..nlit).map(|_| u.arbitrary::<u8>().unwrap_or(0) % alpha).collect();
    let nseq = u.int_in_range(0..=24)?;
    let mut seqs = vec![];
    for _ in 0..nseq {
        seqs.push(SeqSpec { ll: u.int_in_range(0..=70)?, ml: u.int_in_range(3..=300)?, off: off(u)? });
    }
    Ok(CompSpec {
        literals,
        lit_mode: u.int_in_range(0..=3)?,
        lit_fmt: u.int_in_range(0..=3)?,
        huf_shape: u.arbitrary()?,
        huf_fse: u.arbitrary()?,
        seqs,
        count_fmt: u.int_in_range(0..=2)?,
        modes: [u.int_in_range(0..=3)?, u.int_in_range(0..=3)?, u.int_in_range(0..=3)?],
        tables: [(u.int_in_range(5..=9)?, u.arbitrary()?), (u.int_in_range(5..=9)?, u.arbitrary()?), (u.int_in_range(5..=9)?, u.arbitrary()?)],
    })
}

fn spec(u: &mut Unstructured) -> arbitrary::Result<FrameSpec> {
    let nb = u.int_in_range(0..=6)?;
    let mut blocks = vec![];
    for _ in 0..nb {
        blocks.push(match u.int_in_range(0..=5)? {
            0 => BlockSpec::Raw { data: (0..u.int_in_range(0..=40)?).map(|i| i as u8).collect() },
            1 => BlockSpec::Rle { byte: u.arbitrary()?, len: u.int_in_range(0..=3000)? },
            _ => BlockSpec::Comp(comp(u)?),
        });
    }
    Ok(FrameSpec {
        single_segment: u.arbitrary()?,
        window_desc: u.int_in_range(0..=0x67)?,
        fcs_bytes: [0u8, 1, 2, 4, 8][u.int_in_range(0..=4)? as usize],
        checksum: u.arbitrary()?,
        dict_id_bytes: 0, zero_dict_id: false,
        blocks,
    })
}

fuzz_target!(|data: &[u8]| {
    let mut u = Unstructured::new(data);
    let Ok(s) = spec(&mut u) else { return };
    let mut bytes = synth(&s, None, false).bytes;
    // havoc: up to 4 byte edits from the remaining input
    let k: u8 = u.int_in_range(0..=4).unwrap_or(0);
    for _ in 0..k {
        if bytes.is_empty() {
            break;
        }
        let at = u.int_in_range(0..=bytes.len() - 1).unwrap_or(0);
        let x: u8 = u.arbitrary().unwrap_or(1);
        match u.int_in_range(0..=3).unwrap_or(0) {
            0 => bytes[at] ^= x | 1,
            1 => bytes[at] = x,
            2 => bytes.truncate(at),
            _ => bytes[at] = bytes[at].wrapping_add(1),
        }
    }
    let sel: u8 = u.arbitrary().unwrap_or(0);
    let n: u16 = u.arbitrary().unwrap_or(1);
    let entry = match sel % 4 {
        0 => Entry::Streaming { read: 1 + n as u32 },
        1 => Entry::Blocks { strat: sel >> 2, n: n as u32, drain: sel >> 4 },
        2 => Entry::FromTo { chunk: 1 + n as u32, target: 4096 },
        _ => Entry::DecodeAll { target: 200_000 },
    };
    if let Err(e) = drive_and_reuse(&bytes, &entry, None, None, n & 0x8000 != 0) {
        panic!("C03: {e}");
    }
});
